"""C15 - entities are immutable, hashable value objects.

Class-level invariants (ground, every class incl. the record classes) + the assumed contract of
@dataclass(frozen=True, slots=True, eq=True) give the instance-level statement for all
well-typed instances; a native exercise of one default-ish and one populated instance per class
validates that assumed contract (model validation, bounded, not proof)."""
from __future__ import annotations

import copy
import dataclasses
import datetime
import enum
import pickle
import sys
import types
import typing
import uuid

import boot  # noqa: F401
from checks import common, schema_facts as SF

IMMUTABLE_LEAVES = (int, str, bytes, bool, float, uuid.UUID, datetime.timedelta, datetime.datetime, type(None))


def immutable_type(tp, seen):
    """inductive: immutable leaf, enum, tuple[immutable, ...], union of immutables, frozen slotted dataclass of immutables"""
    origin = typing.get_origin(tp)
    if origin in (types.UnionType, typing.Union):
        return all(immutable_type(a, seen) for a in typing.get_args(tp))
    if origin is tuple:
        a = typing.get_args(tp)
        return len(a) == 2 and a[1] is Ellipsis and immutable_type(a[0], seen)
    if origin is not None:
        return False
    if isinstance(tp, type):
        if issubclass(tp, enum.Enum):
            return True
        if dataclasses.is_dataclass(tp):
            if tp in seen:
                return True
            seen.add(tp)
            p = tp.__dataclass_params__
            hints = typing.get_type_hints(tp)
            return p.frozen and all(immutable_type(hints[f.name], seen) for f in dataclasses.fields(tp))
        if hasattr(tp, "__bound__") and type(tp).__name__ == "PhantomMeta":
            # a phantom type's instances are the values of its BOUND that satisfy the predicate (isinstance goes through
            # __instancecheck__), whatever the class nominally derives from: every component of the bound must be immutable
            b = tp.__bound__
            parts = typing.get_args(b) if typing.get_origin(b) in (types.UnionType, typing.Union) else (b if isinstance(b, tuple) else (b,))
            return all(isinstance(c, type) and issubclass(c, IMMUTABLE_LEAVES) for c in parts)
        if not issubclass(tp, IMMUTABLE_LEAVES):
            return False
        # a leaf type derived from a builtin value type keeps that type's equality and hash (a subclass that redefines
        # __eq__ or __hash__ can make equal field values hash differently, or unequal ones compare equal)
        for c in tp.__mro__:
            if c in IMMUTABLE_LEAVES or c is object or c.__module__ in ("builtins", "datetime", "uuid", "enum", "abc", "typing"):
                continue
            if "__eq__" in vars(c) or "__hash__" in vars(c) or "__ne__" in vars(c):
                return False
        return True
    return False


def sample_value(tp, rich, depth=0):
    import kio.static.primitive as P
    origin = typing.get_origin(tp)
    if origin in (types.UnionType, typing.Union):
        args = [a for a in typing.get_args(tp) if a is not type(None)]
        return sample_value(args[0], rich, depth) if rich else None
    if origin is tuple:
        it = typing.get_args(tp)[0]
        return (sample_value(it, rich, depth + 1), sample_value(it, False, depth + 1)) if rich and depth < 3 else ()
    if dataclasses.is_dataclass(tp):
        return sample_instance(tp, rich, depth + 1)
    if issubclass(tp, enum.Enum):
        return list(tp)[-1 if rich else 0]
    if issubclass(tp, bool):
        return rich
    if issubclass(tp, datetime.timedelta):
        return tp(datetime.timedelta(milliseconds=1234 if rich else 0)) if hasattr(tp, "parse") else datetime.timedelta(0)
    if issubclass(tp, datetime.datetime):
        d = datetime.datetime(2024, 1, 2, 3, 4, 5, 6000 if rich else 0, tzinfo=datetime.timezone.utc)
        return tp(d) if hasattr(tp, "parse") else d
    if issubclass(tp, float):
        return tp(1.5 if rich else 0.0)
    if issubclass(tp, int):
        return tp(7 if rich else 0)
    if issubclass(tp, str):
        return tp("xyz" if rich else "")
    if issubclass(tp, bytes):
        return tp(b"\x01\x02" if rich else b"")
    if issubclass(tp, uuid.UUID):
        return uuid.UUID(int=5)
    raise TypeError(tp)


def sample_instance(T, rich, depth=0):
    hints = typing.get_type_hints(T)
    kw = {}
    for f in dataclasses.fields(T):
        if not rich and f.default is not dataclasses.MISSING:
            continue
        kw[f.name] = sample_value(hints[f.name], rich, depth)
    return T(**kw)


def exercise(T, facts, pre):
    for rich in (False, True):
        tagp = f"{pre}/{'populated' if rich else 'default'}"
        try:
            x = sample_instance(T, rich)
            y = sample_instance(T, rich)
        except Exception as ex:       # noqa: BLE001
            facts.append((f"{tagp}/constructible", False, repr(ex)))
            continue
        flds = dataclasses.fields(T)
        ok = True
        for f in flds[:3] or ():
            try:
                setattr(x, f.name, getattr(x, f.name))
                ok = False
            except dataclasses.FrozenInstanceError:
                pass
            except Exception:     # noqa: BLE001
                ok = False
            try:
                delattr(x, f.name)
                ok = False
            except dataclasses.FrozenInstanceError:
                pass
            except Exception:     # noqa: BLE001
                ok = False
        try:
            x.brand_new_attribute = 1
            ok = False
        except (dataclasses.FrozenInstanceError, AttributeError, TypeError):
            pass
        facts.append((f"{tagp}/rejects-assignment-and-deletion", ok, ""))
        facts.append((f"{tagp}/no-instance-dict", not hasattr(x, "__dict__"), ""))
        try:
            facts.append((f"{tagp}/equal-fields-equal-and-same-hash", x == y and hash(x) == hash(y) and x is not y, ""))
        except Exception as ex:       # noqa: BLE001
            facts.append((f"{tagp}/equal-fields-equal-and-same-hash", False, repr(ex)))
        if flds and rich:
            try:
                other = sample_instance(T, False)
                differs = any(getattr(other, f.name) != getattr(x, f.name) for f in flds)
                facts.append((f"{tagp}/different-fields-unequal", (other != x) == differs, ""))
            except Exception as ex:   # noqa: BLE001
                facts.append((f"{tagp}/different-fields-unequal", False, repr(ex)))
        try:
            before = tuple(getattr(x, f.name) for f in flds)
            c1, c2, c3, c4 = copy.copy(x), copy.deepcopy(x), dataclasses.replace(x), pickle.loads(pickle.dumps(x))
            same = all(c == x and type(c) is T for c in (c1, c2, c3, c4))
            unchanged = before == tuple(getattr(x, f.name) for f in flds)
            facts.append((f"{tagp}/copy-replace-pickle-give-equal-instances", same and unchanged and c4 is not x, ""))
        except Exception as ex:       # noqa: BLE001
            facts.append((f"{tagp}/copy-replace-pickle-give-equal-instances", False, repr(ex)))


def class_facts(T, ac, pre):
    facts = []
    p = getattr(T, "__dataclass_params__", None)
    facts.append((f"{pre}/is-dataclass", p is not None, ""))
    if p is None:
        return facts
    facts.append((f"{pre}/frozen", bool(p.frozen), ""))
    facts.append((f"{pre}/eq-generated", bool(p.eq), ""))
    facts.append((f"{pre}/no-custom-order-or-unsafe-hash", not p.unsafe_hash, ""))
    names = tuple(f.name for f in dataclasses.fields(T))
    facts.append((f"{pre}/slots-are-exactly-the-fields", tuple(getattr(T, "__slots__", ("<none>",))) == names,
                  f"{getattr(T, '__slots__', None)} vs {names}"))
    mro_ok = all(("__slots__" in vars(b)) or b is object or b.__name__ in ("Generic", "Protocol") for b in T.__mro__)
    facts.append((f"{pre}/no-dict-or-weakref-in-mro", mro_ok and "__dict__" not in names and "__weakref__" not in names, ""))
    facts.append((f"{pre}/hash-generated-from-fields", T.__hash__ is not None and "__hash__" in vars(T), ""))
    handwritten = [m for m in ("__setattr__", "__delattr__", "__eq__", "__hash__", "__getstate__", "__setstate__",
                               "__reduce__", "__copy__", "__deepcopy__", "__init__", "__post_init__")
                   if ac is not None and m in ac["methods"]]
    facts.append((f"{pre}/no-handwritten-special-methods", not handwritten, handwritten))
    if ac is not None:
        d = ac["decorator"]
        facts.append((f"{pre}/source-decorator-frozen-slots-kw_only", d.get("frozen") is True and d.get("slots") is True
                      and d.get("kw_only") is True, d))
        facts.append((f"{pre}/no-base-classes", ac["bases"] == [], ac["bases"]))
    # "equal exactly when all fields are equal, hash consistent with that": every field takes part in __eq__/__hash__
    # and in __init__ (a field excluded from comparison, or a hidden non-init field, makes unequal values compare equal)
    for f in dataclasses.fields(T):
        facts.append((f"{pre}.{f.name}/field-takes-part-in-eq-hash-and-init",
                      f.compare is True and f.hash in (None, True) and f.init is True and f.kw_only is True,
                      f"compare={f.compare} hash={f.hash} init={f.init} kw_only={f.kw_only}"))
    try:
        hints = typing.get_type_hints(T)
        for f in dataclasses.fields(T):
            facts.append((f"{pre}.{f.name}/type-inductively-immutable", immutable_type(hints[f.name], set()), hints[f.name]))
    except Exception as ex:           # noqa: BLE001
        facts.append((f"{pre}/annotations-resolve", False, repr(ex)))
    exercise(T, facts, pre + "/model-validation")
    return facts


def run_unit(spec):
    modname, path, api, ver, etype = spec
    classes, _ = SF.ast_classes(path)
    astc = {c["name"]: c for c in classes}
    facts = []
    for T in SF.live_classes(modname):
        facts += class_facts(T, astc.get(T.__name__), f"C15/{api}.v{ver}.{etype}/{T.__name__}")
    for c in classes:
        facts.append((f"C15/{api}.v{ver}.{etype}/{c['name']}/every-class-in-module-is-a-dataclass", c["is_dataclass"], ""))
    return [{"unit": f"C15/{modname}", "ground": facts, "obligations": [], "undecided": [], "paths": 0, "time": 0, "functions": []}]


def trickle_replayer(ob):
    """native witness: a stream that hands out one byte per read() call"""
    import kio.serial.readers as R

    class Trickle:
        def __init__(self, data):
            self.d, self.p = data, 0

        def read(self, n=-1):
            out = self.d[self.p:self.p + min(1, max(n, 0))]
            self.p += len(out)
            return out
    for n in (0, 1, 2, 5):
        try:
            r = R.read_exact(Trickle(b"abcdefgh"), n)
        except Exception:       # noqa: BLE001
            continue
        if type(r) is not bytes:
            return {"confirmed": True, "function": "kio.serial.readers:read_exact", "input": f"a stream returning one byte per read(), n={n}",
                    "expected": "bytes", "observed": f"{type(r).__name__}: {r!r}"}
    return {"confirmed": None, "note": "no witness with the one-byte-per-read stream"}


def decoder_values_immutable():
    """instances produced by the decoder hold immutable values: every byte the decoder hands out comes from
    read_exact, whose result must be an immutable `bytes` on every path - checked under the WEAK stream model
    (read(n) may return fewer bytes than available), so slow paths for short reads are covered too"""
    import kio.serial.readers as R
    import z3
    from contracts import serial as CS
    from kvc.core import Raw, SBytes, SInt
    from kvc.models import Source
    from kvc.verify import Result, collect, explore_unit, make_interp, path_obligation, run_body
    reg = CS.Registry()
    res = Result("C15/decoder/read_exact-returns-immutable-bytes")

    def run(ctx):
        src = Source(ctx, [Raw(ctx.bytes_const("input"))])
        src.short_reads = True
        n = SInt(ctx.int_const("n"))
        it = make_interp(ctx, reg, exclude=R.read_exact)
        it.max_unwind = 2
        res.replayer = trickle_replayer
        o = run_body(it, R.read_exact, [src, n])
        if o.kind == "return":
            path_obligation(res, ctx, f"{res.unit}/result-is-bytes", z3.BoolVal(isinstance(o.value, (bytes, SBytes))),
                            expected="an immutable bytes object", got=type(o.value).__name__)
        collect(res, ctx)
    explore_unit(res, run)
    # unwinding bounds of retry loops are irrelevant for this clause (only the kind of what is returned matters)
    res.undecided = [u for u in res.undecided if "unwinding" not in str(u[1])]
    return [common.summarise(res, [common.function_record(R.read_exact)])]


def main(tier):
    rep = common.Report("C15", tier, "class-level invariants (contract on every class, discharged by evaluation, exhaustive) "
                        "+ assumed contract of @dataclass(frozen, slots, eq) => instance-level immutability; native exercise "
                        "of two instances per class as validation of that assumed contract")
    mods = SF.walk_modules()
    us = common.run_units("checks.c15", mods)
    for u in us:
        if u.get("crash"):
            rep.add_units([u])
            continue
        for name, ok, detail in u.get("ground", []):
            rep.add_ground(name, ok, detail)
    rep.add_units(decoder_values_immutable())
    import kio.records.schema as RS
    path = RS.__file__
    classes, _ = SF.ast_classes(path)
    astc = {c["name"]: c for c in classes}
    nrec = 0
    for name in ("RecordHeader", "Record", "RecordBatch", "NewRecordBatch"):
        T = getattr(RS, name, None)
        rep.add_ground(f"C15/records/{name}/exists", T is not None)
        if T is None:
            continue
        nrec += 1
        for n, ok, d in class_facts(T, astc.get(name), f"C15/records/{name}"):
            rep.add_ground(n, ok, d)
    rep.extra.update({"modules": len(mods), "record_classes": nrec, "exhaustive": True})
    rep.assumptions += [
        "contract of dataclasses: with frozen=True assignment/deletion raise FrozenInstanceError; with eq=True __eq__ compares the "
        "field tuples of same-class instances and __hash__ hashes that tuple; slots=True removes the instance __dict__; copy/"
        "deepcopy/replace/pickle rebuild equal instances (validated natively on two instances per class, not proved)",
        "instances are well-typed (field values of the declared immutable types)",
    ]
    return rep.finish("./vf check C15 --tier " + tier)


if __name__ == "__main__":
    sys.exit(main(sys.argv[1] if len(sys.argv) > 1 else "quick"))
