"""Frame / interface-discipline obligations shared by C07 and C19.

Every function under contract is executed symbolically once more, this time only to observe
*how* it touches the world:
  iface   the sink parameter is used only as buffer.write(<bytes>) (or handed to a contracted
          writer), the source only as buffer.read(<int>) (or handed to a contracted reader);
  frame   no `global`/`nonlocal`, no store/del/mutating call on captured or global objects, no
          attribute store on a parameter; temporaries are fresh objects of the activation;
  fault   if the stream raises at any write/read call the exception propagates unchanged and
          nothing outside the frame has changed (C19).
"""
from __future__ import annotations

import boot  # noqa: F401
import z3

from checks import common


def units(faulty):
    from checks import l2
    from contracts import serial as CS
    reg = CS.Registry()
    specs = [("l1w", n, faulty) for n in reg.writers] + [("l1r", n, faulty) for n in reg.readers]
    specs += [("l1s", n, faulty) for n in ("read_exact", "empty_tagged", "tagged_field", "arrays")]
    specs += [("l2", l2.class_key(T), faulty) for T in l2.all_entities()]
    return specs


def _observe(res_unit, fn, make, reg, faulty, out, replayer=None):
    """run fn on generic arguments; collect effects and the outcome classes per path"""
    from kvc.core import PyRaise
    from kvc.interp import FrameViolation
    from kvc.models import IfaceViolation, IOFault
    from kvc.verify import Result, collect, explore_unit, make_interp, path_obligation, run_body
    res = Result(res_unit)
    if replayer is not None:
        res.replayer = replayer

    def run(ctx):
        args, closers = make(ctx)
        it = make_interp(ctx, reg, exclude=fn)
        n0 = len(ctx.effects)
        try:
            o = run_body(it, fn, args)
        except IfaceViolation as ex:
            path_obligation(res, ctx, f"{res_unit}/iface-discipline", z3.BoolVal(False), kind_="iface",
                            expected="buffer used only through write(bytes) / read(int)", got=str(ex))
            collect(res, ctx)
            return
        except FrameViolation as ex:
            path_obligation(res, ctx, f"{res_unit}/frame", z3.BoolVal(False), expected="no effect outside the frame",
                            got=str(ex))
            collect(res, ctx)
            return
        eff = [e for e in ctx.effects[n0:] if e[0] != "iface"]
        path_obligation(res, ctx, f"{res_unit}/frame", z3.BoolVal(not eff), expected="no effect outside the frame",
                        got=repr(eff)[:300])
        path_obligation(res, ctx, f"{res_unit}/iface-discipline", z3.BoolVal(not [e for e in ctx.effects[n0:] if e[0] == "iface"]),
                        expected="buffer used only through write(bytes) / read(int)")
        open_tmp = [c for c in it.__dict__.get("_alive", []) if type(c).__name__ == "LocalBytesIO" and getattr(c, "managed", False) and not c.closed]
        path_obligation(res, ctx, f"{res_unit}/temporaries-closed", z3.BoolVal(not open_tmp), expected="every `with` buffer closed")
        if faulty:
            injected = any("io_fault" in str(p) and not z3.is_not(p) for p in ctx.pc)
            if injected:
                path_obligation(res, ctx, f"{res_unit}/stream-fault-propagates", z3.BoolVal(o.kind == "raise" and o.exc is IOFault),
                                expected="the stream's exception propagates unchanged", got=repr(o))
        collect(res, ctx)
    explore_unit(res, run)
    # float code is outside the subset and has its own bounded stand-ins; every other engine limit leaves the
    # frame of that path undecided and is reported
    res.undecided = [u for u in res.undecided if not any(k in str(u[1]) for k in ("float", "SInstantSeconds", "total_seconds"))]
    out.append(common.summarise(res, [common.function_record(fn)]))


def history_replayer(key):
    """native search for a concrete witness of history dependence of a class's cached writer/reader:
    a stream fault injected at every write/read index, then the same value again; and interleaved use"""
    def replay(ob):
        import io
        from checks import c15, l2
        from kio.serial import entity_reader, entity_writer
        T = l2.resolve(key)
        try:
            x, y = c15.sample_instance(T, True), c15.sample_instance(T, False)
        except Exception as ex:       # noqa: BLE001
            return {"confirmed": None, "note": f"no sample instance: {ex!r}"}
        ref = io.BytesIO()
        entity_writer.__wrapped__(T)(ref, x) if hasattr(entity_writer, "__wrapped__") else entity_writer(T)(ref, x)
        want = ref.getvalue()

        class FailingSink:
            def __init__(self, k):
                self.k, self.n = k, 0

            def write(self, b):
                if self.n == self.k:
                    raise OSError("injected stream fault")
                self.n += 1

        class FailingSource:
            def __init__(self, data, k):
                self.d, self.p, self.k, self.n = data, 0, k, 0

            def read(self, n=-1):
                if self.n == self.k:
                    raise OSError("injected stream fault")
                self.n += 1
                out = self.d[self.p:self.p + n]
                self.p += len(out)
                return out
        w, r = entity_writer(T), entity_reader(T)
        for k in range(0, 200):
            sink = FailingSink(k)
            try:
                w(sink, x)
                done = True
            except OSError:
                done = False
            except Exception:        # noqa: BLE001
                done = False
            buf = io.BytesIO()
            try:
                w(buf, x)
                got = buf.getvalue()
            except Exception as ex:  # noqa: BLE001
                got = repr(ex).encode()
            if got != want:
                return {"confirmed": True, "class": key, "history": f"a stream fault at write #{k}, then the same value encoded again",
                        "input": repr(x)[:300], "expected": want.hex()[:200], "observed": got.hex()[:200] if isinstance(got, bytes) else got}
            if done:
                break
        for k in range(0, 200):
            src = FailingSource(want, k)
            try:
                r(src)
                done = True
            except OSError:
                done = False
            except Exception:        # noqa: BLE001
                done = False
            try:
                back = r(io.BytesIO(want))
            except Exception as ex:  # noqa: BLE001
                back = ex
            if back != x:
                return {"confirmed": True, "class": key, "history": f"a stream fault at read #{k}, then the same bytes decoded again",
                        "expected": repr(x)[:300], "observed": repr(back)[:300]}
            if done:
                break
        return {"confirmed": None, "note": "no single-threaded history (fault at every stream call, repeated use) changes the result; "
                                           "the shared state can still matter under concurrent use"}
    return replay


def run_unit(spec):
    import kio.serial.readers as R
    import kio.serial.writers as W
    from checks import l1_serial as L1
    from contracts import entity as CE
    from contracts import serial as CS
    from kvc.core import Raw, SInt
    from kvc.models import Sink, Source
    from spec import domains, schema_spec
    kind, name, faulty = spec
    reg = CS.Registry(extra=CE.extra_lookup)
    out = []
    if kind == "l1w":
        fn, c = getattr(W, name), reg.writers[name]
        for k in c.kinds:
            def make(ctx, k=k):
                v = L1.generic_arg(ctx, k, "v")
                req = c.requires(ctx, v)
                if req is not True:
                    ctx.assume(req)
                return [Sink(ctx, faulty=faulty), v], []
            _observe(f"frame/{fn.__module__}:{name}/{'_'.join(map(str, k))}", fn, make, reg, faulty, out)
    elif kind == "l1r":
        fn, c = getattr(R, name), reg.readers[name]

        def make(ctx):
            src = Source(ctx, [Raw(ctx.bytes_const("input"))], faulty=faulty)
            src.general = True
            return [src], []
        _observe(f"frame/{fn.__module__}:{name}", fn, make, reg, faulty, out)
    elif kind == "l1s":
        if name == "read_exact":
            def make(ctx):
                src = Source(ctx, [Raw(ctx.bytes_const("input"))], faulty=faulty)
                return [src, SInt(ctx.int_const("n"))], []
            _observe("frame/kio.serial.readers:read_exact", R.read_exact, make, reg, faulty, out)
        elif name == "empty_tagged":
            _observe("frame/kio.serial.writers:write_empty_tagged_fields", W.write_empty_tagged_fields,
                     lambda ctx: ([Sink(ctx, faulty=faulty)], []), reg, faulty, out)
        elif name == "tagged_field":
            def make(ctx):
                v = domains.generic(ctx, ("cstr",), "v")
                return [Sink(ctx, faulty=faulty), SInt(ctx.int_const("tag", 0, 1000)), W.write_compact_string, v], []
            _observe("frame/kio.serial.writers:write_tagged_field", W.write_tagged_field, make, reg, faulty, out)
        elif name == "arrays":
            areg = L1.abstract_item_registry()
            for factory in (W.compact_array_writer, W.legacy_array_writer):
                clo = factory(L1._abs_item_writer)
                c = areg.lookup(clo)

                def make(ctx, c=c):
                    return [Sink(ctx, faulty=faulty), L1.generic_arg(ctx, c.kinds[0], "v")], []
                _observe(f"frame/kio.serial.writers:{factory.__name__}.closure", clo, make, areg, faulty, out)
            for factory in (R.compact_array_reader, R.legacy_array_reader):
                clo = factory(L1._abs_item_reader)

                def make(ctx):
                    src = Source(ctx, [Raw(ctx.bytes_const("input"))], faulty=faulty)
                    src.general = True
                    return [src], []
                _observe(f"frame/kio.serial.readers:{factory.__name__}.closure", clo, make, areg, faulty, out)
    elif kind == "l2":
        from checks import l2
        from kio.serial import entity_reader, entity_writer
        T = l2.resolve(name)
        short = name.replace("kio.schema.", "")
        w, r = entity_writer(T), entity_reader(T)

        def make_w(ctx):
            return [Sink(ctx, faulty=faulty), schema_spec.generic_entity(ctx, T, "x")], []
        _observe(f"frame/L2/{short}/write_entity", w, make_w, reg, faulty, out, replayer=history_replayer(name))

        def make_r(ctx):
            x = schema_spec.generic_entity(ctx, T, "x")
            from kvc.core import Enc
            src = Source(ctx, [Enc(("ent", T), x), Raw(ctx.bytes_const("tail"))], faulty=faulty)
            return [src], []
        _observe(f"frame/L2/{short}/read_entity", r, make_r, reg, faulty, out, replayer=history_replayer(name))
        if T.__flexible__ and not faulty:
            # every path of the reader, including the ones only foreign or malformed input reaches
            def make_g(ctx):
                src = Source(ctx, [Raw(ctx.bytes_const("input"))])
                src.general = True
                return [src], []
            _observe(f"frame/L2/{short}/read_entity[arbitrary-input]", r, make_g, reg, faulty, out)
    return out


def plan_construction_frames(rep, pid):
    """the outer bodies of entity_writer / entity_reader (plan construction, run once per class behind
    functools.cache) executed by the interpreter on concrete arguments: they must not store into, or call a
    mutating method on, any module-level or captured container"""
    from checks import l2
    from kio.serial import entity_reader, entity_writer
    from kvc.core import Ctx, PyRaise, Undecided
    from kvc.interp import FrameViolation, Interp
    from kvc.models import base_models
    n = 0
    ents = l2.all_entities()
    for fac in (entity_writer, entity_reader):
        raw = getattr(fac, "__wrapped__", fac)
        bad = []
        und = []
        for T in ents[:: 1]:
            ctx = Ctx()
            it = Interp(ctx, models=base_models())
            try:
                it.call_function(raw, [T, False])
            except FrameViolation as ex:
                bad.append((T, str(ex)))
            except (PyRaise, Undecided) as ex:
                und.append((T, str(ex)))
            n += 1
            if len(bad) > 3:
                break
        rep.add_ground(f"{pid}/plan-construction/{fac.__name__}/no-shared-state-touched", not bad,
                       f"{len(bad)} classes; first: {bad[0][1] if bad else ''}")
        if und:
            rep.undecided.append(f"{pid}/plan-construction/{fac.__name__}: {und[0][1]} ({len(und)} classes)")
    return n


def plan_equivalence(rep, pid):
    """caching: entity_reader/entity_writer build the same plan every time they run (cache
    bypassed through __wrapped__), so whichever completed call the cache keeps is equivalent"""
    from checks import l2
    from kio.serial import entity_reader, entity_writer

    def cells(fn):
        return dict(zip(fn.__code__.co_freevars, (c.cell_contents for c in fn.__closure__))) if fn.__closure__ else {}

    def equiv(a, b, depth=0):
        if a is b:
            return True
        if callable(a) and callable(b) and hasattr(a, "__code__") and hasattr(b, "__code__"):
            if a.__code__ is not b.__code__:
                return False
            ca, cb = cells(a), cells(b)
            return ca.keys() == cb.keys() and all(equiv(ca[k], cb[k], depth + 1) for k in ca)
        if isinstance(a, dict) and isinstance(b, dict):
            return list(a.keys()) == list(b.keys()) and all(equiv(a[k], b[k], depth + 1) for k in a)
        if isinstance(a, tuple) and isinstance(b, tuple):
            return len(a) == len(b) and all(equiv(x, y, depth + 1) for x, y in zip(a, b))
        try:
            return a == b
        except Exception:       # noqa: BLE001
            return False
    n = 0
    for T in l2.all_entities():
        for fac in (entity_writer, entity_reader):
            raw = getattr(fac, "__wrapped__", None)
            name = f"{pid}/cache/{fac.__name__}/{T.__module__.replace('kio.schema.', '')}:{T.__qualname__}"
            if raw is None:
                rep.add_ground(name, True, "not cached")
                continue
            for nullable in (False, True):
                try:
                    a, b, c = raw(T, nullable), raw(T, nullable), fac(T, nullable)
                    ok = a is not b and equiv(a, b) and equiv(a, c)
                except Exception as ex:       # noqa: BLE001
                    ok = False
                n += 1
                if not ok or nullable is False:
                    rep.add_ground(name + ("/nullable" if nullable else ""), ok, "fresh builds of the plan are equivalent closures")
    return n
