"""Bounded stand-ins (NOT proof) for kio.records: run-time contract checks of the real functions
against spec/records_spec.py over an enumerated grid with a stated bound, used (a) for functions
whose bodies compute through floats and (b) as validation of the CRC axiom and of the models."""
from __future__ import annotations

import datetime
import io
import itertools
import os
import random

from spec import records_spec as RS


class _Capped(list):
    """failure list capped PER (key, witness class): known-finding witnesses must never crowd out a different failure"""

    def append(self, f):
        k = (f.get("key"), f.get("witness_class"))
        if sum(1 for g in self if (g.get("key"), g.get("witness_class")) == k) < 4:
            super().append(f)


def outcome(thunk):
    try:
        return ("return", thunk())
    except BaseException as ex:      # noqa: BLE001
        return ("raise", type(ex).__name__)


def ts_of(ms, us=0):
    return RS.EPOCH + datetime.timedelta(milliseconds=ms, microseconds=us)


def record_grid(tier):
    from kio.records.schema import Record, RecordHeader
    rnd = random.Random(int(os.environ.get("VERIF_SEED", "0") or 0))
    times = [0, 1, 999, 1000, 1001, 1503229838908, 1503229838909, 2 ** 31, 2 ** 41 + 7, 253402300799999]
    times += [rnd.randrange(0, 2 ** 41) for _ in range(20 if tier == "quick" else 400)]
    blobs = [None, b"", b"k", b"x" * 63, b"y" * 64, b"w" * 65, b"q" * 127, b"r" * 128, b"z" * 8192]
    hdrs = [(), (RecordHeader(key=b"hkey", value=b"hval"),), (RecordHeader(key=None, value=None), RecordHeader(key=b"", value=b"v" * 70))]
    hdrs.append((RecordHeader(key=b"h" * 64, value=b"v" * 64),))
    recs = []
    i = j = 0
    for t in times:
        for k, v in ((None, b"123"), (b"", None), (blobs[j % len(blobs)], blobs[(j // len(blobs) + j + 3) % len(blobs)])):
            recs.append(Record(attributes=(i % 256) - 128, timestamp=ts_of(t), offset=10 + i, key=k, value=v, headers=hdrs[i % len(hdrs)]))
            i += 1
        j += 1
    return recs


def batches(tier):
    from kio.records.schema import NewRecordBatch
    recs = record_grid(tier)
    rnd = random.Random(1 + int(os.environ.get("VERIF_SEED", "0") or 0))
    out = []
    for n in (1, 2, 3, 7):
        for start in range(0, len(recs) - n, 5 if tier == "quick" else 1):
            rs = list(recs[start:start + n])
            if (start // 5) % 2:
                rnd.shuffle(rs)
            rs = [r.__class__(attributes=r.attributes, timestamp=r.timestamp, offset=rs[0].offset + j * (1 if start % 3 else 1000),
                              key=r.key, value=r.value, headers=r.headers) for j, r in enumerate(rs)]
            out.append(NewRecordBatch(producer_id=rnd.choice((-1, 0, 2 ** 63 - 1)), producer_epoch=rnd.choice((-1, 0, 32767)),
                                      partition_leader_epoch=rnd.choice((0, 1, 2 ** 31 - 1)), base_sequence=rnd.choice((-1, 0, 5)),
                                      records=tuple(rs), attributes=rnd.choice((0, 1, 16))))
    return out


def fold_twin_batches():
    """two batches whose record timestamps are ==, hash-equal, and one hour apart (DST fold)"""
    from kio.records.schema import NewRecordBatch, Record
    try:
        import zoneinfo
        z = zoneinfo.ZoneInfo("Europe/Berlin")
    except Exception:        # noqa: BLE001
        return []
    a = datetime.datetime(2021, 10, 31, 2, 30, tzinfo=z, fold=0)
    out = []
    for t in (a, a.replace(fold=1), a):
        out.append(NewRecordBatch(producer_id=1, producer_epoch=0, partition_leader_epoch=0, base_sequence=0, attributes=0,
                                  records=(Record(attributes=0, timestamp=t, offset=5, key=b"k", value=b"v", headers=()),)))
    return out


def check_writer(tier):
    """write_new_batch / write_batch against the reference encoder and the independent decoder"""
    from kio.records.writers import write_batch, write_new_batch
    fails, n = _Capped(), 0
    for b in batches(tier) + fold_twin_batches():
        n += 1
        buf = io.BytesIO()
        k, r = outcome(lambda: write_new_batch(buf, b))
        want = RS.encode_new_batch(b)
        got = buf.getvalue() if k == "return" else r
        if got != want:
            sub_ms = any(RS.ms_of(x.timestamp) % 1000 for x in b.records)
            if True:
                fails.append({"key": "new-batch-bytes", "input": repr(b)[:500], "expected": want.hex()[:200],
                              "observed": got.hex()[:200] if isinstance(got, bytes) else got,
                              "witness_class": "record timestamp with non-zero milliseconds" if sub_ms else None})
            continue
        d = RS.decode_batch(want)
        ok = (d["crc_ok"] and d["length_ok"] and d["magic"] == 2 and len(d["records"]) == len(b.records)
              and all(x["timestamp_ms"] == RS.ms_of(y.timestamp) and x["offset"] == y.offset and x["key"] == y.key
                      and x["value"] == y.value and x["attributes"] == y.attributes
                      and x["headers"] == [(h.key, h.value) for h in y.headers] for x, y in zip(d["records"], b.records)))
        if not ok:
            fails.append({"key": "independent-decoder-recovers-input", "input": repr(b)[:500], "expected": "records", "observed": repr(d)[:300]})
    return n, fails


def empty_batch():
    """a well-formed batch without records (what a broker keeps after compaction removed them all)"""
    post = RS.encode_post(0, 4, 1503229838908, 1503229838908, 7, 1, 0, 100, [])
    return RS.be(8, 100) + RS.be(4, len(post) + 9) + RS.be(4, 3) + b"\x02" + RS.be(4, RS.crc32c_ref(post), False) + post


def reference_batches(tier):
    return [RS.encode_new_batch(b) for b in batches(tier)][:: (4 if tier == "quick" else 1)] + [empty_batch()]


def check_reader(tier):
    """read_batch on reference-encoded batches and on the broker fixtures: fields as encoded,
    read->write reproduces the bytes"""
    from kio.records.readers import read_batch
    from kio.records.writers import write_batch
    fails, n = _Capped(), 0
    srcs = [("reference", d) for d in reference_batches(tier)] + fixtures()
    for origin, data in srcs:
        n += 1
        want = RS.decode_batch(data)
        buf = io.BytesIO(data + b"\x77")
        k, r = outcome(lambda: read_batch(buf))
        if k != "return":
            fails.append({"key": "reads-well-formed-batch", "input": data.hex()[:300], "expected": "a batch", "observed": r})
            continue
        hdr_ok = all(getattr(r, f) == want[f] for f in ("base_offset", "batch_length", "partition_leader_epoch", "crc", "attributes",
                                                       "last_offset_delta", "base_timestamp", "max_timestamp", "producer_id",
                                                       "producer_epoch", "base_sequence")) and buf.tell() == want["consumed"]
        if not hdr_ok:
            fails.append({"key": "header-fields-as-encoded", "input": data.hex()[:300], "expected": repr(want)[:200], "observed": repr(r)[:200]})
        same_shape = len(r.records) == len(want["records"])
        rest_ok = same_shape and all(
            x.offset == y["offset"] and x.key == y["key"] and x.value == y["value"]
            and [(h.key, h.value) for h in x.headers] == y["headers"] for x, y in zip(r.records, want["records"]))
        rec_ok = rest_ok and all(RS.ms_of(x.timestamp) == y["timestamp_ms"] for x, y in zip(r.records, want["records"]))
        # the KNOWN finding is exactly: every timestamp comes back truncated to its whole second and nothing else differs
        # (anything else - a wrong second, another field - is a different violation and is reported as such)
        d6 = rest_ok and not rec_ok and all(RS.ms_of(x.timestamp) == (y["timestamp_ms"] // 1000) * 1000
                                            for x, y in zip(r.records, want["records"]))
        if not rec_ok:
            fails.append({"key": "records-as-encoded", "input": data.hex()[:300],
                          "expected": [y["timestamp_ms"] for y in want["records"]][:4],
                          "observed": [RS.ms_of(x.timestamp) for x in r.records][:4],
                          "witness_class": "record timestamp with non-zero milliseconds" if d6 else None})
        out = io.BytesIO()
        k2, r2 = outcome(lambda: write_batch(out, r))
        if (k2 != "return" or out.getvalue() != data[:want["consumed"]]):
            # known only when it is the consequence of the truncation above: the writer reproduced exactly what the
            # reader returned (reference encoding of the returned batch)
            faithful = k2 == "return" and outcome(lambda: RS.encode_prepared_batch(r)) == ("return", out.getvalue())
            fails.append({"key": "read-then-write-reproduces-bytes", "input": data.hex()[:300], "expected": data[:want["consumed"]].hex()[:200],
                          "observed": out.getvalue().hex()[:200] if k2 == "return" else r2,
                          "witness_class": "record timestamp with non-zero milliseconds" if d6 and faithful else None})
    return n, fails


def fixtures():
    """the four batches captured from a real broker (tests/records/fixtures.py, read as data)"""
    import ast
    import boot
    path = os.path.join(boot.REPO, "tests", "records", "fixtures.py")
    try:
        tree = ast.parse(open(path).read())
        for node in ast.walk(tree):
            if isinstance(node, ast.AnnAssign) and getattr(node.target, "id", "") == "record_batch_data_v2":
                blobs = ast.literal_eval(node.value)
                out = []
                for blob in blobs:
                    p = 0
                    while p < len(blob):
                        d = RS.decode_batch(blob[p:])
                        out.append(("broker-fixture", blob[p:p + d["consumed"]]))
                        p += d["consumed"]
                return out
    except Exception:        # noqa: BLE001
        pass
    return []


def check_corruption(tier):
    """every single-bit flip from the CRC field to the end, a wrong magic byte, and every
    truncation make read_batch fail with an error (also validates the CRC axiom natively)"""
    from kio.records.readers import read_batch
    fails, n = _Capped(), 0
    srcs = [d for _, d in fixtures()] + reference_batches(tier)[:: (6 if tier == "quick" else 1)]
    for data in srcs:
        if len(data) > 400 and tier == "quick":
            continue
        for pos in range(17, len(data)):           # CRC field starts at byte 17
            for bit in range(8):
                n += 1
                bad = bytearray(data)
                bad[pos] ^= 1 << bit
                k, r = outcome(lambda: read_batch(io.BytesIO(bytes(bad))))
                if k == "return":
                    fails.append({"key": "bit-flip-detected", "input": f"{data.hex()[:120]} flip byte {pos} bit {bit}",
                                  "expected": "an error", "observed": "returned a batch"})
        for magic in (0, 1, 3, 255):
            n += 1
            bad = bytearray(data)
            bad[16] = magic
            k, r = outcome(lambda: read_batch(io.BytesIO(bytes(bad))))
            if not (k == "raise" and r == "ValueError"):
                fails.append({"key": "wrong-magic-rejected", "input": f"magic={magic}", "expected": "ValueError", "observed": str(r)})
        outcome(lambda: read_batch(io.BytesIO(data)))      # history: the complete batch was read just before
        for cut in range(len(data)):
            n += 1
            k, r = outcome(lambda: read_batch(io.BytesIO(data[:cut])))
            if k == "return":
                fails.append({"key": "truncation-detected", "input": f"{data.hex()[:120]} cut at {cut}", "expected": "an error",
                              "observed": "returned a batch"})
    return n, fails
