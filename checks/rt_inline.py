"""Level-1 round-trip facts proved DIRECTLY from the two bodies (callees inlined down to the
stdlib models, no Kafka spec involved): for every (writer, reader) pair that occurs at matching
positions of some class plan, reader(writer(v) ++ tail) == (v, tail) for every v in the domain.
A symmetric change of both sides keeps these green (C01 holds); an asymmetric one fails here."""
from __future__ import annotations

import boot  # noqa: F401
import z3

from checks import common


def collect_pairs():
    """distinct (writer, reader) function pairs from the real plans of all classes, including the
    item codecs captured by the array closures"""
    from checks import l2
    from kio.serial import entity_reader, entity_writer
    pairs = {}

    def cells(fn):
        return dict(zip(fn.__code__.co_freevars, (c.cell_contents for c in fn.__closure__))) if fn.__closure__ else {}

    def item_of(fn):
        c = cells(fn)
        named = c.get("item_writer") or c.get("item_reader")
        if named is not None:
            return named
        cand = [v for v in c.values() if callable(v) and not isinstance(v, type)]
        return cand[0] if len(cand) == 1 else None

    def add(w, r, where):
        qw, qr = getattr(w, "__qualname__", ""), getattr(r, "__qualname__", "")
        if "array" in qw and "<locals>" in qw:
            iw, ir = item_of(w), item_of(r)
            if iw is not None and ir is not None:
                add(iw, ir, where + "[]")
            pairs.setdefault((qw.split(".")[0], qr.split(".")[0]), where)
            return
        if w.__module__ in ("kio.serial._serialize",) or r.__module__ in ("kio.serial._parse",):
            return      # nested entity: its own class-level obligation
        pairs.setdefault((w.__name__, r.__name__), where)
    from contracts.entity import plan_callables
    for T in l2.all_entities():
        fw, tw = plan_callables(entity_writer(T))
        fr, tr = plan_callables(entity_reader(T))
        for n in fw:
            if n in fr:
                add(fw[n], fr[n], f"{T.__module__}:{T.__qualname__}.{n}")
        for t in tw:
            if t in tr:
                add(tw[t][1], tr[t][1], f"{T.__module__}:{T.__qualname__}.tag{t}")
    return pairs


def units():
    return sorted((w, r, where) for (w, r), where in collect_pairs().items())


def _inline(fn):
    return getattr(fn, "__module__", "") in ("kio.serial.readers", "kio.serial.writers")


def run_unit(spec):
    import kio.serial.readers as R
    import kio.serial.writers as W
    from checks import l1_serial as L1
    from contracts import serial as CS
    from kvc.core import Raw, equalise, sym_eq, tobool
    from kvc.models import Sink, Source
    from kvc.verify import Result, collect, explore_unit, make_interp, path_obligation, run_body
    wname, rname, where = spec
    reg0 = CS.Registry()
    areg = L1.abstract_item_registry()
    if wname.endswith("_array_writer"):
        w = getattr(W, wname)(L1._abs_item_writer)
        r = getattr(R, rname)(L1._abs_item_reader)
        wc = areg.lookup(w)
        kinds = wc.kinds
        requires = wc.requires
    else:
        w, r = getattr(W, wname, None), getattr(R, rname, None)
        wc = reg0.writers.get(wname)
        if w is None or r is None or (wc is None and rname not in reg0.readers):
            return [{"unit": f"L1/rt-inline/{wname}+{rname}", "obligations": [], "paths": 0, "time": 0, "functions": [],
                     "undecided": [f"the pair ({wname}, {rname}) used at {where} has no contract to take its value domain from"]}]
        if wc is not None:
            kinds = wc.kinds
            requires = wc.requires
        else:
            # a writer without a contract of its own (new or renamed): its value domain is taken from the reader it is
            # paired with in the plan; the round trip itself is still proved from the two bodies
            kinds = [reg0.readers[rname].desc]
            requires = lambda ctx, v: True      # noqa: E731

    class OnlyAbstract:
        def lookup(self, fn):
            if fn is L1._abs_item_writer or fn is L1._abs_item_reader:
                return areg.lookup(fn)
            return None
    out = []
    rdesc = reg0.readers[rname].desc if rname in reg0.readers else None
    if rdesc is not None and rdesc[0] in ("cstr", "ncstr", "lstr", "nlstr"):
        kinds = [k for k in kinds if "str" in k[0]]       # a string field: str values only
    elif rdesc is not None and rdesc[0] in ("cbytes", "ncbytes", "lbytes", "nlbytes"):
        kinds = [k for k in kinds if "bytes" in k[0]]
    for kind in kinds:
        res = Result(f"L1/rt-inline/{wname}+{rname}/{'_'.join(map(str, kind))}")

        def run(ctx, kind=kind, res=res):
            v = L1.generic_arg(ctx, kind, "v")
            if kind == ("anyint",):
                d = wc.desc(v)
                from spec.kafka import be_range
                lo, hi = be_range(d[1], d[2]) if d[0] == "be" else (-1, 2 ** 31 - 1)
                ctx.assume(z3.And(v.t >= lo, v.t <= hi))
            req = requires(ctx, v)
            if req is not True:
                ctx.assume(req)
            tail = ctx.bytes_const("tail")
            res.replayer = rt_replayer(w, r, v, tail, wc)
            sink = Sink(ctx)
            it = make_interp(ctx, OnlyAbstract(), inline=_inline)
            o1 = run_body(it, w, [sink, v])
            if o1.kind != "return":
                # only the contracted encode errors (value outside the domain) may stop the round trip here
                exp = wc.expect(ctx, v) if wc is not None else ("return",)
                if exp[0] != "raise":
                    path_obligation(res, ctx, f"{res.unit}/writer-accepts-domain-value", z3.BoolVal(False),
                                    expected="encodes (the value is inside the writer's domain)", got=repr(o1))
                    collect(res, ctx)
                return
            src = Source(ctx, list(sink.out()) + [Raw(tail)])
            it2 = make_interp(ctx, OnlyAbstract(), inline=_inline)
            o2 = run_body(it2, r, [src])
            if o2.kind != "return":
                path_obligation(res, ctx, f"{res.unit}/reader-accepts-writer-output", z3.BoolVal(False),
                                expected="a value", got=repr(o2))
            else:
                path_obligation(res, ctx, f"{res.unit}/decoded-equals-input", tobool(sym_eq(o2.value, v, ctx)),
                                expected=repr(v)[:200], got=repr(o2.value)[:200])
                path_obligation(res, ctx, f"{res.unit}/exact-consumption",
                                tobool(equalise(ctx, src.rest(), [Raw(tail)])), expected="rest == tail",
                                got=repr(src.rest())[:200])
            collect(res, ctx)
        explore_unit(res, run)
        out.append(common.summarise(res, [common.function_record(w), common.function_record(r)]))
    if any(any("float" in u_ or "SInstantSeconds" in u_ or "total_seconds" in u_ for u_ in u["undecided"]) for u in out):
        n, fails, bound = bounded_rt(wname, rname, w, r)
        return [{"unit": f"bounded/rt/{wname}+{rname}", "obligations": [], "undecided": [], "paths": 0, "time": 0,
                 "functions": [], "bounded": {"name": f"bounded/rt/{wname}+{rname}", "bound": bound, "evaluations": n,
                                              "failures": fails, "reason": "body computes through float"}}]
    return out


def rt_replayer(w, r, v, tail, wc=None):
    def replay(ob):
        import io
        from checks.l1_serial import native_outcome, small_model
        from spec import domains
        conc = domains.Concretiser(small_model(ob))
        val = conc.value(v)
        t = conc.bterm(tail)
        buf = io.BytesIO()
        k, res = native_outcome(lambda: w(buf, val))
        if k == "raise":
            from kvc.core import Ctx
            inside = wc is not None and wc.expect(Ctx(), val)[0] != "raise"
            return {"confirmed": bool(inside), "input": repr(val)[:200] + (f" (len {len(val)})" if hasattr(val, "__len__") else ""),
                    "expected": "encodes (value inside the writer's domain)", "observed": f"writer raised {res.__name__}"}
        data = buf.getvalue()
        rb = io.BytesIO(data + t)
        k, res = native_outcome(lambda: r(rb))
        ok = k == "return" and res == val and rb.tell() == len(data)
        from checks.l1_serial import classify_witness
        return {"confirmed": not ok, "input": repr(val)[:400], "encoded": data.hex()[:200],
                "expected": {"value": repr(val)[:200], "position": len(data)},
                "observed": {"outcome": k, "value": repr(res)[:200], "position": rb.tell()},
                "witness_class": classify_witness(val)}
    return replay


def bounded_rt(wname, rname, w, r):
    """bounded stand-in for pairs with float bodies: native round trip over the time grid"""
    import datetime
    import io
    import os
    from checks import bounded_time as BT
    tier = os.environ.get("VERIF_TIER", "quick")
    fails = []
    n = 0
    if "timedelta" in wname:
        lo, hi = BT.td_range(4 if wname.endswith("32") else 8)
        vals = [datetime.timedelta(milliseconds=ms) for ms in BT.grid(lo, hi, tier)]
    else:
        vals = [BT.EPOCH + datetime.timedelta(milliseconds=ms) for ms in BT.grid(0, BT.TS_MAX_MS, tier)]
        if "nullable" in wname:
            vals.append(None)
    for v in vals:
        n += 1
        buf = io.BytesIO()
        k, res = BT.outcome(lambda: w(buf, v))
        if k == "raise":
            fails.append({"key": "writer-raises", "input": repr(v), "expected": "encodes", "observed": res})
            continue
        rb = io.BytesIO(buf.getvalue() + b"\x55")
        k, res = BT.outcome(lambda: r(rb))
        if not (k == "return" and res == v and rb.tell() == len(buf.getvalue())):
            wc = None
            if isinstance(v, datetime.timedelta):
                wc = "duration beyond 2^53 ms" if abs(v // datetime.timedelta(milliseconds=1)) > 2 ** 53 else "duration"
            elif isinstance(v, datetime.datetime):
                wc = "timestamp with non-zero milliseconds" if v.microsecond else "timestamp"
            if len(fails) < 8:
                fails.append({"key": "roundtrip", "input": repr(v), "expected": repr(v), "observed": repr(res),
                              "witness_class": wc})
    return n, fails, f"{n} whole-millisecond values (power-of-two neighbourhoods, limits, windows, seeded random)"
