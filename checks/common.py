"""Shared check infrastructure: parallel execution of verification units, verdicts,
known findings, replay files, evidence, exit codes.

Exit codes: 0 all obligations discharged (bounded stand-ins clean); 1 violation (VIOLATION
line printed); 2 undecided (solver unknown / construct outside the subset / model that does
not reproduce natively) - never reported as a violation; 3 internal error of the checker.
"""
from __future__ import annotations

import json
import multiprocessing as mp
import os
import re
import sys
import time
import traceback

VERIF = os.path.dirname(os.path.dirname(os.path.abspath(__file__)))
_SCRATCH = os.environ.get("KIO_REPO", "/repo") != "/repo"     # a run against a scratch copy must not touch the evidence
REPLAYS = os.path.join("/tmp/kvc_scratch" if _SCRATCH else VERIF, "replays")
EVIDENCE = os.path.join("/tmp/kvc_scratch" if _SCRATCH else VERIF, "evidence")

TRUSTED_BASE = [
    "CPython 3.12 semantics of the supported statement/expression subset as implemented by kvc/interp.py "
    "(ints mathematical = exact for Python's unbounded ints; bit operators rewritten by guarded identities, kvc/intops.py)",
    "struct.pack/unpack for the formats >? >b >h >i >q >B >H >I >Q >d: big-endian two's complement / IEEE-754 bijections, "
    "struct.error outside the range (kvc/models.py; validated against CPython on every run)",
    "int.to_bytes, str.encode / bytes.decode (UTF-8: decode(encode(s)) == s, UnicodeEncodeError exactly on lone surrogates), "
    "uuid.UUID(bytes=)/.bytes, enum lookup by value, datetime.timedelta integer arithmetic and range errors",
    "IO[bytes].write appends, IO[bytes].read(n) returns min(n, remaining) bytes (all for n < 0); io.BytesIO; contextlib.closing",
    "dataclasses (generated __init__/__eq__ of frozen slotted kw_only dataclasses), typing.get_origin/get_args, functools.cache",
    "floats computed by the code under contract: the standard model of IEEE-754 binary64 round-to-nearest (each operation's "
    "result r satisfies |r - exact| <= 2^-53 |exact| in the normal range; kvc/fpmodel.py) and CPython's correctly rounded int/int, "
    "timedelta.total_seconds(), aware datetime.timestamp(), exact round(float)/int(float) - machine arithmetic treated as "
    "bounded-error real arithmetic (an over-approximation: proofs hold for the machine, counter-models are replayed natively)",
    "z3 4.x / cvc5 1.4 (solver soundness)",
    "spec/kafka.py: the Kafka encodings as written from the protocol guide (the specification itself)",
]

DROPPED_BY_EXTRACTION = ("type annotations and `# type: ignore` comments, docstrings, comments, @overload stubs, the text of "
                         "exception messages (their sub-expressions are still evaluated), __hypothesis_hook__ methods")


class UnitTimeout(BaseException):
    pass


def _worker(args):
    modname, spec = args
    try:
        import faulthandler
        import importlib
        import signal
        faulthandler.register(signal.SIGUSR1, all_threads=False)      # kill -USR1 <worker> prints where it is
        limit = int(os.environ.get("KVC_UNIT_TIMEOUT", "1800"))

        def _expired(signum, frame):
            raise UnitTimeout(f"unit exceeded {limit}s")
        signal.signal(signal.SIGALRM, _expired)
        signal.alarm(limit)
        mod = importlib.import_module(modname)
        t0 = time.time()
        out = mod.run_unit(spec)
        signal.alarm(0)
        for o in out if isinstance(out, list) else [out]:
            o.setdefault("wall", time.time() - t0)
        return out if isinstance(out, list) else [out]
    except UnitTimeout as ex:
        # the engine did not finish this unit: undecided, never a violation and never a hang of the whole check
        return [{"unit": str(spec), "obligations": [], "undecided": [f"engine timeout: {ex}"], "paths": 0, "time": 0.0}]
    except Exception:
        return [{"unit": str(spec), "crash": traceback.format_exc(), "obligations": [], "undecided": [], "paths": 0,
                 "time": 0.0}]


def run_units(modname, specs, jobs=None):
    jobs = jobs or min(16, os.cpu_count() or 4)
    if os.environ.get("KVC_SERIAL") or len(specs) <= 1:
        res = [_worker((modname, s)) for s in specs]
    else:
        ctx = mp.get_context("fork")
        with ctx.Pool(jobs) as pool:
            res = pool.map(_worker, [(modname, s) for s in specs], chunksize=max(1, len(specs) // (jobs * 8)))
    out = []
    for r in res:
        out.extend(r)
    return out


# ------------------------------------------------------------------------------ summarising Result objects
def summarise(res, functions=(), level="symbolic"):
    """kvc.verify.Result -> plain dict (after discharge + replay)"""
    from kvc.verify import discharge
    obs = []
    for ob in res.obligations:
        if ob.status is None:
            discharge(ob)
        d = {"name": ob.name, "status": ob.status, "backend": ob.backend, "time": round(ob.time, 4),
             "kind": ob.kind}
        for k in ("expected", "got", "mismatch", "solver"):
            if k in ob.info:
                d[k] = str(ob.info[k])[:600]
        if ob.info.get("vacuous"):
            d["vacuous"] = True
        if ob.status == "refuted":
            rp = ob.info.get("replayer")
            d["model"] = str(ob.model)[:1500] if ob.model is not None else None
            if rp is not None:
                try:
                    d["replay"] = rp(ob)
                except Exception:
                    d["replay"] = {"confirmed": None, "error": traceback.format_exc()[-800:]}
            else:
                d["replay"] = {"confirmed": None, "note": "no input can be constructed for this obligation"}
        obs.append(d)
    functions = list(functions)
    for f in getattr(res, "inlined", {}).values():
        functions.append(dict(function_record(f), role="helper without a contract of its own: its real body is verified "
                                                       "inside each caller (inlined)"))
    return {"unit": res.unit, "paths": res.paths, "time": round(res.time, 3), "obligations": obs,
            "undecided": [u[1] if isinstance(u, tuple) else str(u) for u in res.undecided],
            "effects": [list(map(str, e)) for e in res.effects][:50], "functions": list(functions)}


def function_record(fn):
    from kvc.interp import ast_digest, span_of
    try:
        f, a, b = span_of(fn)
        return {"function": f"{fn.__module__}:{fn.__qualname__}", "file": f, "lines": [a, b], "ast_sha": ast_digest(fn)}
    except Exception as ex:
        return {"function": f"{getattr(fn, '__module__', '?')}:{getattr(fn, '__qualname__', fn)}", "error": str(ex)}


# ------------------------------------------------------------------------------ known findings
def load_known(pid):
    path = os.path.join(VERIF, "known_findings.json")
    if not os.path.exists(path):
        return []
    with open(path) as fh:
        data = json.load(fh)
    return [e for e in data.get("findings", []) if e.get("property") == pid and e.get("status") == "open"]


def match_known(known, key):
    for e in known:
        if re.search(e["match"], key):
            return e
    return None


# ------------------------------------------------------------------------------ report
class Report:
    def __init__(self, pid, tier, technique, level="proof"):
        self.pid = pid
        self.tier = tier
        self.seed = int(os.environ.get("VERIF_SEED", "0") or 0)
        self.t0 = time.time()
        self.units = []
        self.bounded = []        # bounded stand-ins: dicts with name, bound, evaluations, failures
        self.ground = []         # ground obligations: (name, ok, detail)
        self.assumptions = []
        self.level = level
        self.technique = technique
        self.extra = {}
        self.violations = []     # (key, replay dict)
        self.undecided = []
        self.crashes = []

    def add_units(self, unit_dicts):
        self.units.extend(unit_dicts)

    def add_ground(self, name, ok, detail="", witness=None):
        self.ground.append({"name": name, "ok": bool(ok), "detail": str(detail)[:500], "witness": witness})

    def add_bounded(self, name, bound, evaluations, failures, nontrivial=None):
        self.bounded.append({"name": name, "bound": bound, "evaluations": evaluations,
                             "failures": failures[:200], "n_failures": len(failures),
                             "distinct_nontrivial": nontrivial if nontrivial is not None else evaluations})

    # -------------------------------------------------------------------------- finish
    def finish(self, checker_cmd):
        os.makedirs(EVIDENCE, exist_ok=True)
        os.makedirs(os.path.join(REPLAYS, self.pid), exist_ok=True)
        known = load_known(self.pid)
        n_ob = n_dis = n_vac = 0
        by_backend = {}
        solver_time = 0.0
        samples = []
        functions = {}
        failing = []          # (key, unit, obligation dict)
        for u in self.units:
            if u.get("crash"):
                self.crashes.append((u["unit"], u["crash"]))
                continue
            for f in u.get("functions", []):
                functions[f.get("function")] = f
            for reason in u.get("undecided", []):
                self.undecided.append(f"{u['unit']}: {reason}")
            for ob in u["obligations"]:
                n_ob += 1
                solver_time += ob.get("time", 0.0)
                if ob.get("vacuous"):
                    n_vac += 1
                if ob["status"] == "discharged":
                    n_dis += 1
                    by_backend[ob.get("backend") or "z3"] = by_backend.get(ob.get("backend") or "z3", 0) + 1
                    if len(samples) < 6 and ob.get("expected"):
                        samples.append({"obligation": ob["name"], "expected": ob.get("expected"), "status": "discharged"})
                elif ob["status"] == "refuted":
                    rp = ob.get("replay") or {}
                    if rp.get("confirmed") is False:
                        self.undecided.append(f"{ob['name']}: solver model does not reproduce on the real code (model/engine imprecision)")
                    else:
                        failing.append((ob["name"], u, ob))
                else:
                    self.undecided.append(f"{ob['name']}: {ob.get('solver', 'solver returned unknown')}")
        for g in self.ground:
            n_ob += 1
            if g["ok"]:
                n_dis += 1
                by_backend["evaluation"] = by_backend.get("evaluation", 0) + 1
            else:
                failing.append((g["name"], None, {"name": g["name"], "status": "refuted", "kind": "ground",
                                                  "got": g["detail"], "replay": {"confirmed": None, "witness": g["witness"]}}))
        for b in self.bounded:
            for f in b["failures"]:
                failing.append((f"{b['name']}/{f.get('key', 'failure')}", None,
                                {"name": b["name"], "status": "refuted", "kind": "bounded", "got": f.get("observed"),
                                 "expected": f.get("expected"), "replay": dict(f, confirmed=True)}))
        # ---- verdicts
        known_hits = {}
        known_sym = []
        lines = []
        nviol = 0
        seen_keys = set()
        for key, u, ob in failing:
            rp = ob.get("replay") or {}
            wkey = key + (" :: " + str(rp.get("witness_class")) if rp.get("witness_class") else "")
            if u is not None and match_known(known, wkey) is not None:
                # a symbolic obligation refuted with a replayed witness in the exact shape of an open known finding:
                # reported apart from the obligations the proof-level claim rests on (see coverage.known_finding_obligations)
                known_sym.append(ob["name"])
            if wkey in seen_keys:
                continue
            seen_keys.add(wkey)
            hit = match_known(known, wkey)
            if hit is not None:
                known_hits.setdefault(hit["id"], (hit, wkey, ob))
                continue
            nviol += 1
            if nviol > 25:
                continue
            safe = re.sub(r"[^A-Za-z0-9_.-]+", "_", key)[:150]
            path = os.path.join(REPLAYS, self.pid, safe + ".json")
            with open(path, "w") as fh:
                json.dump({"property": self.pid, "obligation": ob["name"], "key": wkey, "kind": ob.get("kind"),
                           "expected": ob.get("expected"), "observed": ob.get("got") or ob.get("mismatch"),
                           "solver_model": ob.get("model"),
                           "replay": rp, "unit": u["unit"] if u else None,
                           "functions": (u or {}).get("functions")}, fh, indent=1, default=str)
            tail = "" if rp.get("confirmed") else " no-failing-input-found"
            lines.append(f"VIOLATION property={self.pid} replay={path}{tail}")
        for hid, (hit, wkey, ob) in known_hits.items():
            print(f"KNOWN-FINDING: property={self.pid} {hit['what']} [{hid}]")
        for ln in lines:
            print(ln)
        for u in self.undecided[:20]:
            print(f"UNDECIDED property={self.pid} {u}"[:400])
        for unit, tb in self.crashes[:5]:
            print(f"CHECKER-ERROR property={self.pid} unit={unit}\n{tb}", file=sys.stderr)
        # zero obligations is a hard error (vacuity guard)
        if n_ob == 0 and not self.bounded:
            print(f"CHECKER-ERROR property={self.pid}: zero obligations generated", file=sys.stderr)
            self.crashes.append(("vacuity", "zero obligations"))
        wall = time.time() - self.t0
        known_ob = sum(1 for _ in known_hits)
        n_ob_all = n_ob
        if known_sym and not nviol:
            # the claim made at proof level excludes the clauses that are open known findings (listed by name below)
            n_ob -= len(known_sym)
        cov = {
            "obligations": n_ob, "discharged": n_dis,
            "obligations_generated": n_ob_all,
            "known_finding_obligations": sorted(set(known_sym)),
            "known_finding_obligations_count": len(known_sym),
            "checker_cmd": checker_cmd,
            "trusted_base": TRUSTED_BASE,
            "by_backend": by_backend,
            "solver_time_s": round(solver_time, 2),
            "paths_explored": sum(u.get("paths", 0) for u in self.units),
            "units": len(self.units),
            "functions_under_contract": sorted(functions.values(), key=lambda f: f.get("function") or ""),
            "samples": samples or [{"note": "see ground obligations"}],
            "ground_obligations": len(self.ground),
            "bounded_standins": [{k: v for k, v in b.items() if k != "failures"} for b in self.bounded],
            "known_findings_matched": sorted(known_hits),
            "vacuous_obligations": n_vac,
            "failing_obligations": len(failing),
            "undecided": len(self.undecided),
            "dropped_by_extraction": DROPPED_BY_EXTRACTION,
            "exhaustive": False,
        }
        cov.update(self.extra)
        ev = {"property_id": self.pid, "tier": self.tier, "seed": self.seed, "level": self.level, "coverage": cov,
              "assumptions": self.assumptions, "wall_s": round(wall, 2), "violations": nviol,
              "technique": self.technique}
        if n_ob == 0:
            # keep the file schema-valid even in the degenerate case
            cov["obligations"], cov["discharged"] = max(1, n_ob), 0
        with open(os.path.join(EVIDENCE, f"{self.pid}.json"), "w") as fh:
            json.dump(ev, fh, indent=1, default=str)
        print(f"{self.pid} [{self.tier}] obligations={n_ob} discharged={n_dis} failing={len(failing)} "
              f"known={len(known_hits)} violations={nviol} undecided={len(self.undecided)} "
              f"bounded={len(self.bounded)} wall={wall:.1f}s")
        if self.crashes:
            return 3
        if nviol:
            return 1
        if self.undecided:
            return 2
        return 0
