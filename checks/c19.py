"""C19 - readers and writers are stateless: history, failures and threads do not matter.

Proved: the frame of every function under contract (no state outside the stream parameter and
fresh locals is read-modified), exception safety under an injected stream fault at every
write/read, closing of temporaries, equivalence of independently built plans (cache).  The
thread clause follows by non-interference from disjoint frames under the stated assumptions;
no schedule is enumerated (a bounded native thread run is added as a stand-in, labelled)."""
from __future__ import annotations

import sys

import boot  # noqa: F401
from checks import common, frames


def thread_standin(rep, tier):
    """bounded, NOT proof: cold-cache creation and use from many threads gives the same bytes"""
    import io
    import threading
    from checks import c15, l2
    from kio.serial import entity_reader, entity_writer
    ents = [T for T in l2.all_entities()][:: (40 if tier == "quick" else 8)]
    expect = {}
    for T in ents:
        x = c15.sample_instance(T, True)
        b = io.BytesIO()
        entity_writer.__wrapped__(T)(b, x)
        expect[T] = (x, b.getvalue())
    for fac in (entity_writer, entity_reader):
        fac.cache_clear()
    fails = []
    n = [0]

    def worker(order):
        for T in order:
            x, want = expect[T]
            b = io.BytesIO()
            entity_writer(T)(b, x)
            back = entity_reader(T)(io.BytesIO(b.getvalue()))
            n[0] += 1
            if b.getvalue() != want or back != x:
                fails.append({"key": "thread-result-differs", "input": repr(T), "expected": want.hex()[:80], "observed": b.getvalue().hex()[:80]})
    threads = [threading.Thread(target=worker, args=(ents[i % 3:] + ents[: i % 3] if i % 2 else list(reversed(ents)),)) for i in range(8)]
    for t in threads:
        t.start()
    for t in threads:
        t.join()
    rep.add_bounded("bounded/threads-cold-cache", f"8 threads x {len(ents)} classes, one OS schedule (not a schedule exploration)", n[0], fails)


def main(tier):
    rep = common.Report("C19", tier, "contract-based: frame (purity) obligations on every function under contract obtained by "
                        "symbolic execution of the real bodies, fault injection at every stream call, ground plan-equivalence; "
                        "thread clause by non-interference argument, not explored")
    rep.add_units(common.run_units("checks.frames", frames.units(True)))
    n = frames.plan_equivalence(rep, "C19")
    rep.extra["plan_constructions_scanned"] = frames.plan_construction_frames(rep, "C19")
    thread_standin(rep, tier)
    from checks import history
    n2, f2 = history.writers_history()
    rep.add_bounded("bounded/history-equal-but-distinct-arguments/writers",
                    f"{n2} ordered pairs of equal-but-distinct arguments (0.0/-0.0, 1/True/1.0, n/float(n)/Fraction/Decimal) over the "
                    "fixed-width, float and varint writers", n2, f2)
    n3, f3 = history.phantom_history()
    rep.add_bounded("bounded/history-equal-but-distinct-arguments/primitive-types",
                    f"{n3} ordered pairs over the 13 numeric primitive types (isinstance and constructor)", n3, f3)
    rep.extra["plans_compared"] = n
    rep.assumptions += [
        "functools.cache returns the value of a completed call for equal arguments, caches nothing when the call raises, and is "
        "safe to call concurrently (may compute a cold entry more than once) - assumed contract of the stdlib",
        "CPython dict/tuple reads of the immutable captured plans are atomic; threads share only those plans",
        "NO thread schedule is enumerated and no race inside CPython is searched for: the thread clause is an argument from the "
        "proved frame conditions, plus one bounded native run",
    ]
    return rep.finish("./vf check C19 --tier " + tier)


if __name__ == "__main__":
    sys.exit(main(sys.argv[1] if len(sys.argv) > 1 else "quick"))
