"""Runs INSIDE the scratch tree (cwd = scratch root, PYTHONPATH = scratch/src:scratch): executes the
real generator on the definitions found in schema/<build_tag>/, imports what it generated and
dumps a neutral JSON description + encodings of sample instances to stdout (last line)."""
import dataclasses
import datetime
import enum
import importlib
import io
import json
import pkgutil
import sys
import types
import typing
import uuid


def neutral(v):
    if v is None or isinstance(v, (bool, str)):
        return v
    if isinstance(v, enum.Enum):
        return {"enum": int(v.value)}
    if isinstance(v, int):
        return int(v)
    if isinstance(v, float):
        return {"float": v}
    if isinstance(v, bytes):
        return {"bytes": v.hex()}
    if isinstance(v, uuid.UUID):
        return {"uuid": v.hex}
    if isinstance(v, datetime.timedelta):
        return {"td_ms": v // datetime.timedelta(milliseconds=1)}
    if isinstance(v, datetime.datetime):
        return {"ts_ms": (v - datetime.datetime(1970, 1, 1, tzinfo=datetime.timezone.utc)) // datetime.timedelta(milliseconds=1)}
    if isinstance(v, tuple):
        return [neutral(x) for x in v]
    if dataclasses.is_dataclass(v):
        return {"struct": type(v).__name__, "fields": {f.name: neutral(getattr(v, f.name)) for f in dataclasses.fields(v)}}
    return {"repr": repr(v)}


def sample(tp, salt, depth=0):
    origin = typing.get_origin(tp)
    if origin in (types.UnionType, typing.Union):
        args = [a for a in typing.get_args(tp) if a is not type(None)]
        return sample(args[0], salt, depth)          # always a non-null sample
    if origin is tuple:
        it = typing.get_args(tp)[0]
        return tuple(sample(it, salt + i, depth + 1) for i in range(2 if depth < 2 else 1))
    if dataclasses.is_dataclass(tp):
        hints = typing.get_type_hints(tp)
        return tp(**{f.name: sample(hints[f.name], salt + 3 * i + 1, depth + 1) for i, f in enumerate(dataclasses.fields(tp))})
    if issubclass(tp, enum.Enum):
        return list(tp)[1 + salt % 3]
    if issubclass(tp, bool):
        return salt % 2 == 0
    if issubclass(tp, datetime.timedelta):
        return tp(datetime.timedelta(milliseconds=1000 + salt))
    if issubclass(tp, datetime.datetime):
        return tp(datetime.datetime(2020, 1, 2, 3, 4, 5, 6000, tzinfo=datetime.timezone.utc) + datetime.timedelta(milliseconds=salt))
    if issubclass(tp, float):
        return tp(1.25 + salt)
    if issubclass(tp, int):
        return tp(3 + salt % 100)
    if issubclass(tp, str):
        return tp("s%d" % salt)
    if issubclass(tp, bytes):
        return tp(bytes([salt % 256, 1, 2]))
    if issubclass(tp, uuid.UUID):
        return uuid.UUID(int=salt + 7)
    raise TypeError(tp)


def describe(cls, seen):
    hints = typing.get_type_hints(cls)
    out = {"class": cls.__name__, "version": int(cls.__version__), "flexible": bool(cls.__flexible__), "type": cls.__type__.name,
           "api_key": int(cls.__api_key__) if hasattr(cls, "__api_key__") else None,
           "header": (cls.__header_schema__.__module__ if hasattr(cls, "__header_schema__") else None),
           "params": {k: getattr(cls.__dataclass_params__, k) for k in ("frozen", "eq")}, "slots": list(getattr(cls, "__slots__", ())),
           "fields": []}
    for f in dataclasses.fields(cls):
        tp = hints[f.name]
        inner, nullable = tp, False
        if typing.get_origin(tp) in (types.UnionType, typing.Union):
            args = [a for a in typing.get_args(tp) if a is not type(None)]
            inner, nullable = args[0], True
        arr = typing.get_origin(inner) is tuple
        item = typing.get_args(inner)[0] if arr else inner
        item_nullable = False
        if typing.get_origin(item) in (types.UnionType, typing.Union):
            item = [a for a in typing.get_args(item) if a is not type(None)][0]
            item_nullable = True
        fd = {"name": f.name, "array": arr, "nullable": nullable, "item_nullable": item_nullable, "py_type": getattr(item, "__name__", str(item)),
              "kafka_type": f.metadata.get("kafka_type"), "tag": f.metadata.get("tag"),
              "default": "<absent>" if f.default is dataclasses.MISSING else neutral(f.default),
              "struct": dataclasses.is_dataclass(item)}
        if fd["struct"]:
            fd["fields"] = describe(item, seen)
        out["fields"].append(fd)
    return out


def main():
    from codegen import generate_index, generate_schema
    generate_schema.main()
    try:
        generate_index.main()
        index_error = None
    except BaseException as ex:      # noqa: BLE001
        index_error = repr(ex)
    import kio.schema
    from kio.serial import entity_reader, entity_writer
    result = {"modules": {}, "index_error": index_error}
    pkg_errors = {}
    for m in pkgutil.walk_packages(kio.schema.__path__, "kio.schema.", onerror=lambda name: pkg_errors.setdefault(name, repr(sys.exc_info()[1]))):
        if m.ispkg or m.name.count(".") < 4:
            continue
        try:
            mod = importlib.import_module(m.name)
        except BaseException as ex:      # noqa: BLE001
            result["modules"][m.name] = {"import_error": repr(ex)}
            continue
        classes = [v for v in vars(mod).values() if isinstance(v, type) and dataclasses.is_dataclass(v) and v.__module__ == m.name]
        tops = [c for c in classes if c.__type__.name != "nested"]
        entry = {"classes": sorted(c.__name__ for c in classes), "top": [c.__name__ for c in tops]}
        if len(tops) == 1:
            T = tops[0]
            entry["describe"] = describe(T, set())
            try:
                x = sample(T, 11)
                buf = io.BytesIO()
                entity_writer(T)(buf, x)
                back = entity_reader(T)(io.BytesIO(buf.getvalue()))
                entry["sample"] = {"value": neutral(x), "bytes": buf.getvalue().hex(), "roundtrip": back == x}
            except BaseException as ex:      # noqa: BLE001
                entry["sample_error"] = repr(ex)
            try:
                # a second instance that leaves every defaulted field at its default
                hints = typing.get_type_hints(T)
                y = T(**{f.name: sample(hints[f.name], 5 + i) for i, f in enumerate(dataclasses.fields(T)) if f.default is dataclasses.MISSING})
                buf = io.BytesIO()
                entity_writer(T)(buf, y)
                back = entity_reader(T)(io.BytesIO(buf.getvalue()))
                entry["sample_default"] = {"value": neutral(y), "bytes": buf.getvalue().hex(), "roundtrip": back == y}
            except BaseException as ex:      # noqa: BLE001
                entry["sample_default_error"] = repr(ex)
        result["modules"][m.name] = entry
    result["package_import_errors"] = pkg_errors
    try:
        idx = importlib.import_module("kio.schema.index")
        result["index"] = {"api_key_map": {str(k): v for k, v in idx.api_key_map.items()},
                           "entries": sorted(p for vm in idx.schema_name_map.values() for tm in vm.values() for p in tm.values())}
    except BaseException as ex:      # noqa: BLE001
        result["index"] = {"error": repr(ex)}
    sys.stdout.write("\nC16-RESULT " + json.dumps(result) + "\n")


if __name__ == "__main__":
    main()
