"""Driver shared by the serialisation properties C01, C02, C03, C05, C06, C10: each runs its own
level-2 clause over all 1629 classes plus the dependency cone of level-1 obligations it rests on
(DESIGN.md appendix C)."""
from __future__ import annotations

import os

import boot  # noqa: F401
from checks import common

KAFKA_TYPES = ("int8", "int16", "int32", "int64", "uint8", "uint16", "uint32", "uint64", "float64", "string",
               "bytes", "records", "uuid", "bool", "error_code", "timedelta_i32", "timedelta_i64", "datetime_i64")
NULLABLE_OK = ("string", "bytes", "records", "uuid", "datetime_i64")

CONFIG = {
    "C01": dict(l2=("roundtrip",), l1w=(), l1r=(), rt=True, tables=()),
    "C02": dict(l2=("write",), l1w="all", l1r=(), rt=False, tables=("writer",)),
    "C03": dict(l2=("match", "conf"), l1w=(), l1r=("match", "null"), rt=False, tables=("reader",)),
    "C05": dict(l2=("match", "write"), l1w="all", l1r=("match",), rt=False, tables=()),
    "C06": dict(l2=("trunc",), l1w=(), l1r=("trunc",), rt=False, tables=()),
    "C10": dict(l2=("general",), l1w=(), l1r=("general",), rt=False, tables=()),
}

TIME_FUNCS = ("write_timedelta_i32", "write_timedelta_i64", "write_datetime_i64", "write_nullable_datetime_i64",
              "read_timedelta_i32", "read_timedelta_i64", "read_datetime_i64", "read_nullable_datetime_i64",
              "tz_aware_from_i64")


def units(pid, tier):
    from checks import l2, rt_inline
    from contracts import serial as CS
    cfg = CONFIG[pid]
    reg = CS.Registry()
    specs = []
    keys = [l2.class_key(T) for T in l2.all_entities()]
    # big classes first for better load balance
    for k in keys:
        specs.append(("l2", pid, k))
    for k in l2.nullable_used():
        specs.append(("l2n", pid, k))
    if cfg["l1w"] == "all":
        specs += [("l1w", pid, n) for n in reg.writers]
        specs += [("l1s", pid, n) for n in ("empty_tagged", "tagged_field", "arrays_w")]
    if cfg["l1r"]:
        specs += [("l1r", pid, n) for n in reg.readers]
        specs += [("l1s", pid, n) for n in ("read_exact", "zigzag", "arrays_r", "tz_aware_from_i64")]
    if cfg["rt"]:
        specs += [("rt", pid, u) for u in rt_inline.units()]
    return specs, len(keys), reg.missing


def _float_reason(u):
    return any("float" in r or "SInstantSeconds" in r or "total_seconds" in r for r in u["undecided"])


FLOAT_BODIES = ("write_timedelta_i32", "write_datetime_i64", "write_nullable_datetime_i64")


def _bounded(name, reason="body computes through float (outside the verifier's subset)"):
    from checks import bounded_time
    bound, n, fails = bounded_time.check_function(name, os.environ.get("VERIF_TIER", "quick"))
    return [{"unit": f"bounded/{name}", "obligations": [], "undecided": [], "paths": 0, "time": 0.0, "functions": [],
             "bounded": {"name": f"bounded/{name}", "bound": bound, "evaluations": n, "failures": fails,
                         "reason": reason}}]


def run_unit(spec):
    kind, pid, arg = spec
    cfg = CONFIG[pid]
    if kind == "l2":
        from checks import l2
        out = []
        clauses = [c for c in cfg["l2"] if c in ("write", "match", "trunc", "general")]
        if clauses:
            out += l2.run_class(arg, clauses)
        if "roundtrip" in cfg["l2"]:
            out += l2.run_roundtrip(arg)
        if "conf" in cfg["l2"]:
            from checks import conf
            out += conf.run_class(arg)
        return out
    if kind == "l2n":
        # the nullable wrappers (marker byte) of the classes used as nullable structs
        from checks import l2
        clauses = [c for c in cfg["l2"] if c in ("write", "match", "trunc", "general")]
        if "roundtrip" in cfg["l2"]:
            clauses = ["write", "match"]
        return l2.run_class(arg, clauses, nullable=True) if clauses else []
    import kio.serial.readers as R
    import kio.serial.writers as W
    from checks import l1_serial as L1
    from contracts import serial as CS
    reg = CS.Registry()
    if kind == "l1w":
        fn = getattr(W, arg)
        out = [common.summarise(r, [common.function_record(fn)]) for r in L1.verify_writer(reg, fn, reg.writers[arg])]
        if arg in TIME_FUNCS and any(_float_reason(u) for u in out):
            return _bounded(arg)
        if arg in FLOAT_BODIES:
            # proved under the standard model of binary64 rounding (kvc/fpmodel.py); the native grid stays on as
            # validation of that assumption and as the witness finder for counter-models that are only candidates
            out += _bounded(arg, "validation of the float model (the function is proved under the standard model of "
                                 "IEEE-754 rounding)")
        return out
    if kind == "l1r":
        fn = getattr(R, arg)
        out = [common.summarise(r, [common.function_record(fn)])
               for r in L1.verify_reader(reg, fn, reg.readers[arg], clauses=cfg["l1r"])]
        if arg in TIME_FUNCS and any(_float_reason(u) for u in out):
            return _bounded(arg)
        return out
    if kind == "l1s":
        if arg == "empty_tagged":
            return [common.summarise(L1.verify_empty_tagged(reg), [common.function_record(W.write_empty_tagged_fields)])]
        if arg == "tagged_field":
            return [common.summarise(r, [common.function_record(W.write_tagged_field)]) for r in L1.verify_tagged_field(reg)]
        if arg == "read_exact":
            return [common.summarise(L1.verify_read_exact(reg), [common.function_record(R.read_exact)])]
        if arg == "zigzag":
            return [common.summarise(r, [common.function_record(f) for f in [getattr(R, '_zigzag_decode', None)] if f is not None]) for r in L1.verify_zigzag(reg)]
        if arg == "tz_aware_from_i64":
            out = [common.summarise(L1.verify_tz_aware(reg), [common.function_record(R.tz_aware_from_i64)])]
            if any(_float_reason(u) for u in out):
                return _bounded(arg)
            return out
        if arg in ("arrays_w", "arrays_r"):
            res = L1.verify_arrays(which="w" if arg == "arrays_w" else "r",
                                   clauses=cfg["l1r"] or ("match", "null", "trunc", "general"))
            return [common.summarise(r, []) for r in res]
    if kind == "rt":
        from checks import rt_inline
        return rt_inline.run_unit(arg)
    raise KeyError(spec)


def table_obligations(rep, pid, which):
    """ground contracts of the dispatch tables over every (kafka type, flexible, optional) row,
    including rows no current class uses and an unknown type name"""
    from contracts import serial as CS
    from spec import schema_spec
    reg = CS.Registry()
    if which == "writer":
        from kio.serial._serialize import get_writer as get
    else:
        from kio.serial._parse import get_reader as get
    import z3
    from kvc.core import SBytes, SStr
    for kt in KAFKA_TYPES + ("no_such_type",):
        for flexible in (False, True):
            for optional in (False, True):
                name = f"{pid}/table/get_{which}/{kt}/{'flexible' if flexible else 'legacy'}/{'optional' if optional else 'required'}"
                valid = kt in KAFKA_TYPES and (not optional or kt in NULLABLE_OK)
                try:
                    fn = get(kt, flexible, optional)
                except NotImplementedError:
                    rep.add_ground(name, not valid, "NotImplementedError")
                    continue
                except Exception as ex:       # noqa: BLE001
                    rep.add_ground(name, False, f"raised {type(ex).__name__}")
                    continue
                if not valid:
                    rep.add_ground(name, False, f"returned {getattr(fn, '__name__', fn)} for an invalid row")
                    continue
                c = reg.lookup(fn)
                want = schema_spec.primitive_desc(kt, flexible, optional)
                if c is None:
                    rep.add_ground(name, False, f"{getattr(fn, '__name__', fn)} has no contract")
                    continue
                if which == "writer":
                    probe = SStr(z3.StringVal("")) if kt == "string" else SBytes([])
                    got = c.desc(probe)
                    # a nullable writer also serves the non-nullable declaration only if it is the n-form
                else:
                    got = c.desc
                ok = got == want or (kt == "uuid" and got == ("uuid",))
                rep.add_ground(name, ok, f"{getattr(fn, '__name__', fn)} implements {got}, the protocol prescribes {want}")


TECHNIQUE = ("contract-based deductive verification: per-class obligations generated from the real "
             "entity_writer/entity_reader closures (plans concrete, values/bytes symbolic) by symbolic execution of the "
             "real bodies against sidecar contracts; callees by contract only; z3 (cvc5 on unknown)")


def main(pid, tier, extra=None):
    os.environ["VERIF_TIER"] = tier
    rep = common.Report(pid, tier, TECHNIQUE)
    specs, nclasses, missing = units(pid, tier)
    for m in missing:
        rep.add_ground(f"{pid}/contract-target-exists/{m}", False, "function under contract is missing (renamed or removed)")
    us = common.run_units("checks.l2props", specs)
    for u in us:
        b = u.pop("bounded", None)
        if b:
            rep.add_bounded(b["name"], b["bound"] + "; " + b["reason"], b["evaluations"], b["failures"])
    rep.add_units(us)
    for t in CONFIG[pid]["tables"]:
        table_obligations(rep, pid, t)
    rep.extra["classes"] = nclasses
    rep.extra["exhaustive_over_classes"] = True
    rep.assumptions += [
        "Dom_T: well-typed canonical instances - field values within their declared phantom types, strings without lone "
        "surrogates and shorter than 2^31-1 bytes (32767 for legacy strings), arrays shorter than 2^31, whole-millisecond "
        "durations/timestamps, no all-zero UUID, finite floats, tagged payloads shorter than 2^35 bytes",
        "nested classes are used through their own contract (assume-guarantee over the acyclic nesting graph, itself checked "
        "per class by this run)",
    ]
    if extra:
        extra(rep)
    return rep.finish(f"./vf check {pid} --tier {tier}")
