"""C17 - new record batches are written in the Kafka v2 batch format.

Every function of kio.records.writers is verified against its contract (contracts/records.py):
the bytes appended equal the magic-2 layout of spec/records_spec.py for symbolic records (any
number of records and headers, null/empty/arbitrary keys and values); CRC-32C is an uninterpreted
function (congruence only).  "An independent decoder recovers the input" is validated by the
bounded run against the independent decoder of spec/records_spec.py (stand-in, labelled)."""
from __future__ import annotations

import sys

import boot  # noqa: F401
import z3

from checks import common

UNITS = ("write_signed_compact_bytes", "write_header", "write_record", "_write_batch_pre_checksum",
         "_write_batch_post_checksum", "write_new_batch", "write_prepared_batch", "write_batch")


def _inline(fn):
    """private helpers of kio.records.writers without a contract of their own are inlined"""
    return getattr(fn, "__module__", "") == "kio.records.writers"


def run_unit(name):
    import kio.records.writers as RW
    from checks import l1_serial as L1
    from contracts import records as CR
    from kio.records.schema import NewRecordBatch, RecordBatch
    from kvc.core import SInt, SRec
    from kvc.models import Sink
    reg = CR.registry()
    fn = getattr(RW, name)
    contract = reg.lookup(fn)

    def setup(it):
        it.fold_handler = CR.fold_handler

    def ints(ctx, spec):
        return {n: SInt(ctx.int_const(n, -(2 ** (8 * w - 1)) if s else 0, 2 ** (8 * w - 1) - 1 if s else 2 ** (8 * w) - 1))
                for n, w, s in spec}

    def new_batch(ctx):
        recs = CR.generic_records(ctx, "records", lo=0)
        f = ints(ctx, (("producer_id", 8, True), ("producer_epoch", 2, True), ("partition_leader_epoch", 4, True),
                       ("base_sequence", 4, True), ("attributes", 2, True)))
        f["records"] = recs
        nb = SRec(NewRecordBatch, f)
        # preconditions from the statement: deltas representable, sizes within int32
        first = recs.item(0)
        bts = CR.ms_of(first.fields["timestamp"])
        post = CR.post_segs(ctx, f["attributes"], 0, 0, 0, f["producer_id"], f["producer_epoch"], f["base_sequence"],
                            first.fields["offset"], recs)
        from kvc.core import normalise, total_len, zint
        run = CR.derived_records(recs, z3.simplify(bts), first.fields["offset"])
        ctx.assume(zint(total_len(normalise(CR.post_segs(ctx, f["attributes"], 0, z3.simplify(bts), 0, f["producer_id"], f["producer_epoch"],
                                                           f["base_sequence"], first.fields["offset"], recs)))) + 9 <= 2 ** 31 - 1)
        return nb

    def prepared(ctx):
        f = ints(ctx, (("base_offset", 8, True), ("batch_length", 4, True), ("partition_leader_epoch", 4, True), ("crc", 4, False),
                       ("attributes", 2, True), ("last_offset_delta", 4, True), ("base_timestamp", 8, True), ("max_timestamp", 8, True),
                       ("producer_id", 8, True), ("producer_epoch", 2, True), ("base_sequence", 4, True)))
        f["records"] = CR.generic_records(ctx, "records", base_offset=f["base_offset"], base_ts=f["base_timestamp"])
        return SRec(RecordBatch, f)

    def make(ctx):
        b, s = Sink(ctx), Sink(ctx)
        if name == "write_signed_compact_bytes":
            v = CR.generic_optbytes(ctx, "value")
            return [b, v], [s, v], [("sink", b, s)], {"args": [v]}
        if name == "write_header":
            h = CR.generic_header(ctx, "header")
            return [b, h], [s, h], [("sink", b, s)], {"args": [h]}
        if name == "write_record":
            r = CR.generic_record(ctx, "record")
            bts = SInt(ctx.int_const("base_timestamp", -(2 ** 63), 2 ** 63 - 1))
            boff = SInt(ctx.int_const("base_offset", -(2 ** 63), 2 ** 63 - 1))
            ctx.assume(CR.rec_requires(ctx, CR.RecCtx(r, bts, boff)))
            return [b, r, bts, boff], [s, r, bts, boff], [("sink", b, s)], {"args": [r, bts, boff]}
        if name == "_write_batch_pre_checksum":
            f = ints(ctx, (("base_offset", 8, True), ("batch_length", 4, True), ("partition_leader_epoch", 4, True),
                           ("magic", 1, True), ("crc", 4, False)))
            a = [f[k] for k in ("base_offset", "batch_length", "partition_leader_epoch", "magic", "crc")]
            return [b] + a, [s] + a, [("sink", b, s)], {"args": a}
        if name == "_write_batch_post_checksum":
            f = ints(ctx, (("attributes", 2, True), ("last_offset_delta", 4, True), ("base_timestamp", 8, True),
                           ("max_timestamp", 8, True), ("producer_id", 8, True), ("producer_epoch", 2, True),
                           ("base_sequence", 4, True), ("base_offset", 8, True)))
            recs = CR.generic_records(ctx, "records", base_offset=f["base_offset"], base_ts=f["base_timestamp"])
            a = [f[k] for k in ("attributes", "last_offset_delta", "base_timestamp", "max_timestamp", "producer_id",
                                "producer_epoch", "base_sequence", "base_offset")] + [recs]
            return [b] + a, [s] + a, [("sink", b, s)], {"args": a}
        if name == "write_new_batch":
            nb = new_batch(ctx)
            return [b, nb], [s, nb], [("sink", b, s)], {"args": [nb]}
        if name == "write_prepared_batch":
            p = prepared(ctx)
            return [b, p], [s, p], [("sink", b, s)], {"args": [p]}
        raise KeyError(name)
    out = []
    if name == "write_batch":
        for label, mk in (("prepared", prepared), ("new", new_batch)):
            def make2(ctx, mk=mk):
                b, s = Sink(ctx), Sink(ctx)
                v = mk(ctx)
                return [b, v], [s, v], [("sink", b, s)], {"args": [v]}
            res = L1.verify_refines(reg, fn, contract, make2, f"C17/records.writers/write_batch[{label}]", setup=setup,
                                    models=reg.records_models, inline=_inline, history_replayer=records_history_replayer,
                                    replayer_factory=lambda info: records_replayer(fn, name, info["args"]))
            out.append(res)
    else:
        out.append(L1.verify_refines(reg, fn, contract, make, f"C17/records.writers/{name}", setup=setup,
                                     models=reg.records_models, inline=_inline, history_replayer=records_history_replayer,
                                     replayer_factory=lambda info: records_replayer(fn, name, info["args"])))
    for r in out:
        for ob in r.obligations:
            if ob.info.get("args") is not None:
                ob.info["replayer"] = records_replayer(fn, name, ob.info["args"])
    return [common.summarise(r, [common.function_record(fn)]) for r in out]


def records_history_replayer(ob):
    """native search for a witness that a records writer depends on the call history: a valid batch, then a call that
    fails part-way (a record with a str value / an attribute outside int8), then the same valid batch again"""
    import datetime
    import io
    from kio.records.schema import NewRecordBatch, Record
    from kio.records.writers import write_batch
    ts = datetime.datetime(2024, 1, 2, 3, 4, 5, tzinfo=datetime.timezone.utc)
    good = NewRecordBatch(producer_id=1, producer_epoch=0, partition_leader_epoch=0, base_sequence=0, attributes=0,
                          records=(Record(attributes=0, timestamp=ts, offset=5, key=b"k", value=b"v", headers=()),))

    def enc(b):
        buf = io.BytesIO()
        try:
            write_batch(buf, b)
            return buf.getvalue()
        except Exception as ex:       # noqa: BLE001
            return repr(ex).encode()
    want = enc(good)
    bads = [NewRecordBatch(producer_id=1, producer_epoch=0, partition_leader_epoch=0, base_sequence=0, attributes=0,
                           records=(Record(attributes=a, timestamp=ts, offset=5, key=k, value=v, headers=()),))
            for a, k, v in ((0, b"k", "not bytes"), (1000, b"k", b"v"), (0, "not bytes", b"v"))]
    for i, bad in enumerate(bads):
        enc(bad)
        got = enc(good)
        if got != want:
            return {"confirmed": True, "history": f"a valid batch, then failing call #{i} ({bad.records[0]!r:.120}), then the same valid batch",
                    "expected": want.hex()[:200], "observed": got.hex()[:200] if got[:1] != b"<" else got.decode()[:200]}
    return {"confirmed": False, "note": "no history dependence found natively"}


def records_replayer(fn, name, args):
    """replay a counter-model on the real function against the reference encoder of spec/records_spec.py"""
    def replay(ob):
        import io
        from checks.l1_serial import native_outcome, small_model
        from kio.records.schema import NewRecordBatch
        from spec import domains
        from spec import records_spec as RS
        conc = domains.Concretiser(small_model(ob))
        vals = [conc.value(a) for a in args]
        buf = io.BytesIO()
        k, res = native_outcome(lambda: fn(buf, *vals))
        try:
            if name == "write_signed_compact_bytes":
                want = RS.nb(vals[0])
            elif name == "write_header":
                want = RS.nb(vals[0].key) + RS.nb(vals[0].value)
            elif name == "write_record":
                want = RS.encode_record(vals[0], vals[1], vals[2])
            elif name == "_write_batch_pre_checksum":
                want = RS.be(8, vals[0]) + RS.be(4, vals[1]) + RS.be(4, vals[2]) + RS.be(1, vals[3]) + RS.be(4, vals[4], False)
            elif name == "_write_batch_post_checksum":
                want = RS.encode_post(*vals[:8], vals[8])
            elif isinstance(vals[0], NewRecordBatch):
                want = RS.encode_new_batch(vals[0])
            else:
                want = RS.encode_prepared_batch(vals[0])
        except Exception as ex:       # noqa: BLE001
            return {"confirmed": None, "note": f"reference encoder not applicable to the concretised input: {ex!r}"}
        got = buf.getvalue() if k == "return" else None
        return {"confirmed": got != want, "function": f"kio.records.writers:{name}", "input": repr(vals)[:600],
                "expected": want.hex()[:300], "observed": got.hex()[:300] if got is not None else f"raise {res.__name__}"}
    return replay


def main(tier):
    rep = common.Report("C17", tier, "contract-based deductive verification of kio.records.writers (real bodies, symbolic "
                        "records/headers of arbitrary number and size, CRC uninterpreted) against the magic-2 batch spec; z3; "
                        "independent-decoder clause: bounded native run (stand-in)")
    import kio.records.writers as RW
    from contracts import records as CR
    for m in CR.registry().missing:
        rep.add_ground(f"C17/contract-target-exists/{m}", False, "function under contract is missing (renamed or removed)")
    units = [u for u in UNITS if hasattr(RW, u)]
    absent = [u for u in UNITS if not hasattr(RW, u)]
    if absent:
        rep.extra["private_helpers_absent"] = absent      # verified inside their callers instead
    rep.add_units(common.run_units("checks.c17", units))
    from checks import bounded_records as BR
    n, fails = BR.check_writer(tier)
    rep.add_bounded("bounded/records-writer-vs-reference-encoder-and-independent-decoder",
                    f"{n} batches of 1..7 records (timestamps incl. non-zero ms, null/empty/8 KiB keys and values, 0..2 headers, "
                    "boundary batch parameters)", n, fails)
    rep.assumptions += [
        "preconditions from the statement: at least one record; offset deltas within int32; record bodies and the batch shorter than 2^31 bytes",
        "crc32c.crc32c is an uninterpreted function into [0, 2^32) (only congruence is used); that it is CRC-32C is validated "
        "natively against a bitwise reference implementation in the bounded run",
        "max() over the record timestamps: assumed contract (an element, >= every element)",
    ]
    return rep.finish("./vf check C17 --tier " + tier)


if __name__ == "__main__":
    sys.exit(main(sys.argv[1] if len(sys.argv) > 1 else "quick"))
