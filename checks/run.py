import importlib
import os
import sys
import traceback

sys.path.insert(0, os.path.dirname(os.path.dirname(os.path.abspath(__file__))))
import boot  # noqa: E402,F401


def main(argv):
    if len(argv) < 2 or argv[0] != "check":
        print("usage: vf check <ID> [--tier quick|thorough]")
        return 3
    pid = argv[1]
    tier = os.environ.get("VERIF_TIER", "quick")
    if "--tier" in argv:
        tier = argv[argv.index("--tier") + 1]
    os.environ["VERIF_TIER"] = tier
    try:
        mod = importlib.import_module(f"checks.{pid.lower()}")
        return mod.main(tier)
    except Exception:
        traceback.print_exc()
        print(f"CHECKER-ERROR property={pid}", file=sys.stderr)
        return 3


if __name__ == "__main__":
    sys.exit(main(sys.argv[1:]))
