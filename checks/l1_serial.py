"""Level 1: every leaf reader/writer of kio.serial verified against its contract, body by body."""
from __future__ import annotations

import z3

from contracts import serial as CS
from kvc import opaque
from kvc.core import (Ctx, Enc, Lit, Mismatch, Obligation, PyRaise, Raw, SBytes, SInt, SOpt, SStr, Sym, Undecided,
                      blen, sym_eq, tobool, zint, normalise, total_len)
from kvc.models import Sink, Source
from kvc.verify import Outcome, Result, collect, equalise, explore_unit, make_interp, path_obligation, run_body
from spec import domains, kafka


def generic_arg(ctx, kind, name):
    if kind == ("anyint",):
        return SInt(ctx.int_const(name))
    return domains.generic(ctx, kind, name)


def exc_name(e):
    return getattr(e, "__name__", str(e))


# ------------------------------------------------------------------------------ writers
def verify_writer(reg, fn, contract, label=None, history_replayer=None):
    """for every kind of argument: body raises exactly the contracted error (nothing written)
    or appends exactly the spec encoding"""
    results = []
    for kind in contract.kinds:
        unit = f"L1/writer/{label or contract.name}/{'_'.join(map(str, kind))}"
        res = Result(unit)
        if history_replayer is not None:
            res.history_replayer = history_replayer

        def run(ctx, kind=kind, res=res):
            sink = Sink(ctx)
            value = generic_arg(ctx, kind, "v")
            req = contract.requires(ctx, value)
            if req is not True:
                ctx.assume(req)
            res.replayer = writer_replayer(fn, contract, value)
            it = make_interp(ctx, reg, exclude=fn)
            out = run_body(it, fn, [sink, value])
            exp = contract.expect(ctx, value)
            n0 = len(res.obligations)
            if exp[0] == "raise":
                ok = out.kind == "raise" and out.exc is exp[1]
                path_obligation(res, ctx, f"{unit}/raises-{exc_name(exp[1])}", z3.BoolVal(ok),
                                expected=f"raise {exc_name(exp[1])}", got=repr(out), value=value, sink=sink)
                if ok:
                    path_obligation(res, ctx, f"{unit}/nothing-written-on-raise",
                                    z3.BoolVal(len(sink.out()) == 0), value=value, sink=sink,
                                    expected="no bytes", got=repr(sink.out()))
            else:
                if out.kind != "return":
                    path_obligation(res, ctx, f"{unit}/returns", z3.BoolVal(False),
                                    expected="normal return", got=repr(out), value=value, sink=sink)
                else:
                    cond = equalise(ctx, sink.out(), exp[1])
                    path_obligation(res, ctx, f"{unit}/emits-spec-encoding", tobool(cond) if cond is not True else z3.BoolVal(True),
                                    expected=repr(exp[1]), got=repr(sink.out()), value=value, sink=sink)
                    path_obligation(res, ctx, f"{unit}/returns-None", z3.BoolVal(out.value is None), value=value,
                                    sink=sink)
            collect(res, ctx)
        explore_unit(res, run)
        results.append(res)
    return results


# ------------------------------------------------------------------------------ readers
def verify_reader(reg, fn, contract, extra_args=(), label=None, clauses=("match", "null", "trunc", "general")):
    results = []
    d = contract.desc
    label = label or contract.name
    # ---- M: match
    unit = f"L1/reader/{label}/match"
    res = Result(unit)

    def run_m(ctx, res=res):
        v = domains.generic(ctx, d if not contract.maxbytes else ("uv", 128 ** contract.maxbytes), "v")
        tail = ctx.bytes_const("tail")
        src = Source(ctx, [Enc(d, v), Raw(tail)])
        res.replayer = reader_replayer(fn, "match", contract, [Enc(d, v), Raw(tail)], v, extra_args=extra_args)
        it = make_interp(ctx, reg, exclude=fn)
        out = run_body(it, fn, [src, *extra_args])
        if out.kind != "return":
            # a non-nullable reader on its own (non-null) encoding must not raise
            path_obligation(res, ctx, f"{unit}/returns", z3.BoolVal(False), expected="value", got=repr(out),
                            value=v, source=[Enc(d, v), Raw(tail)])
        else:
            eq = sym_eq(out.value, v)
            path_obligation(res, ctx, f"{unit}/value", tobool(eq), expected=repr(v), got=repr(out.value), value=v,
                            source=[Enc(d, v), Raw(tail)])
            cond = equalise(ctx, src.rest(), [Raw(tail)])
            path_obligation(res, ctx, f"{unit}/exact-consumption", tobool(cond), expected="rest == tail",
                            got=repr(src.rest()), value=v, source=[Enc(d, v), Raw(tail)])
        collect(res, ctx)
    if "match" in clauses:
        explore_unit(res, run_m)
        results.append(res)

    # ---- conformance beyond the canonical form: the protocol guide says of BOOLEAN "when reading, any non-zero value is
    # considered true" - every byte is a conforming encoding, of the value (byte != 0)
    if d == ("bool",) and "match" in clauses:
        unit_c = f"L1/reader/{label}/conf-any-nonzero-byte-is-true"
        res_c = Result(unit_c)

        def run_c(ctx, res=res_c):
            from kvc.core import Byte
            bt = ctx.int_const("byte", 0, 255)
            tail = ctx.bytes_const("tail")
            src = Source(ctx, [Byte(bt), Raw(tail)])

            def replay(ob):
                import io
                m = small_model(ob)
                bv = m.eval(bt, model_completion=True).as_long()
                bio = io.BytesIO(bytes([bv]) + b"\x55")
                k, r_ = native_outcome(lambda: fn(bio, *extra_args))
                ok = k == "return" and r_ is (bv != 0) and bio.tell() == 1
                return {"confirmed": not ok, "function": f"{fn.__module__}:{fn.__qualname__}", "input_bytes": bytes([bv]).hex(),
                        "expected": {"value": bv != 0, "position": 1}, "observed": {"outcome": k, "value": repr(r_), "position": bio.tell()}}
            res.replayer = replay
            it = make_interp(ctx, reg, exclude=fn)
            out = run_body(it, fn, [src, *extra_args])
            if out.kind != "return":
                path_obligation(res, ctx, f"{unit_c}/returns", z3.BoolVal(False), expected="a bool", got=repr(out))
            else:
                path_obligation(res, ctx, f"{unit_c}/value", tobool(it.truth_term(out.value)) == (bt != 0),
                                expected="byte != 0", got=repr(out.value))
                path_obligation(res, ctx, f"{unit_c}/exact-consumption", tobool(equalise(ctx, src.rest(), [Raw(tail)])),
                                expected="rest == tail", got=repr(src.rest()))
            collect(res, ctx)
        explore_unit(res_c, run_c)
        for ob in res_c.obligations:
            ob.info.setdefault("replayer", getattr(res_c, "replayer", None))
        results.append(res_c)

    # ---- N: null form for a non-nullable reader
    sib = CS.nullable_sibling(d)
    if sib is not None and d[0] not in ("ent", "ts") and "null" in clauses:
        from kio.serial.errors import UnexpectedNull
        unit = f"L1/reader/{label}/null"
        res = Result(unit)

        def run_n(ctx, res=res):
            tail = ctx.bytes_const("tail")
            src = Source(ctx, [Enc(sib, None), Raw(tail)])
            res.replayer = reader_replayer(fn, "null", contract, [Enc(sib, None), Raw(tail)], None,
                                           extra_args=extra_args)
            it = make_interp(ctx, reg, exclude=fn)
            out = run_body(it, fn, [src, *extra_args])
            path_obligation(res, ctx, f"{unit}/raises-UnexpectedNull",
                            z3.BoolVal(out.kind == "raise" and out.exc is UnexpectedNull),
                            expected="raise UnexpectedNull", got=repr(out), value=None,
                            source=[Enc(sib, None), Raw(tail)])
            collect(res, ctx)
        explore_unit(res, run_n)
        results.append(res)

    # ---- T: truncation
    from kio.serial.errors import BufferUnderflow
    unit = f"L1/reader/{label}/trunc"
    res = Result(unit)

    def run_t(ctx, res=res):
        v = domains.generic(ctx, d if not contract.maxbytes else ("uv", 128 ** contract.maxbytes), "v")
        enc = Enc(d, v)
        for f in kafka.length_facts(enc):
            ctx.assume(f)
        if d[0] == "ent":
            kafka.unfold(ctx, enc)      # records |E_T(x)| == sum of the field encodings' lengths
        cut = ctx.int_const("cut", 0)
        ctx.assume(cut < zint(enc.length()))
        src = Source(ctx, [enc], avail=cut)
        res.replayer = reader_replayer(fn, "trunc", contract, [enc], v, cut=cut, extra_args=extra_args)
        it = make_interp(ctx, reg, exclude=fn)
        out = run_body(it, fn, [src, *extra_args])
        path_obligation(res, ctx, f"{unit}/raises-BufferUnderflow",
                        z3.BoolVal(out.kind == "raise" and out.exc is BufferUnderflow),
                        expected="raise BufferUnderflow", got=repr(out), value=v, source=[enc], cut=cut)
        collect(res, ctx)
    if "trunc" in clauses:
        explore_unit(res, run_t)
        results.append(res)

    # ---- G: general
    unit = f"L1/reader/{label}/general"
    res = Result(unit)
    allowed = (BufferUnderflow,) + tuple(contract.general_errors)

    def run_g(ctx, res=res):
        r = ctx.bytes_const("input")
        src = Source(ctx, [Raw(r)])
        src.general = True
        res.replayer = general_replayer(fn, contract, allowed + (ValueError, OverflowError), extra_args=extra_args)
        it = make_interp(ctx, reg, exclude=fn)
        out = run_body(it, fn, [src, *extra_args])
        if out.kind == "raise":
            ok = any(out.exc is a for a in allowed)
            path_obligation(res, ctx, f"{unit}/only-contracted-errors", z3.BoolVal(ok),
                            expected="one of " + ", ".join(exc_name(a) for a in allowed), got=repr(out),
                            source=[Raw(r)])
        else:
            path_obligation(res, ctx, f"{unit}/result-in-domain", tobool(in_python_domain(ctx, d, out.value, contract)),
                            expected=f"value of Dom{d}", got=repr(out.value), source=[Raw(r)])
            # never reads beyond the input: consumed <= |input| holds by construction of the
            # source model (a read can only take what is left); state it as an obligation anyway
            path_obligation(res, ctx, f"{unit}/consumes-at-most-input",
                            zint(src.consumed) <= blen(r), source=[Raw(r)])
        collect(res, ctx)
    if "general" in clauses:
        explore_unit(res, run_g)
        results.append(res)
    return results


def in_python_domain(ctx, d, v, contract=None):
    """the value a reader returns on arbitrary input is one the matching writer accepts"""
    from kvc.core import SBool, SOpaque, SSeq
    k = d[0]
    if isinstance(v, SOpt) and k in ("cstr", "lstr", "cbytes", "lbytes", "ts", "ent"):
        # an optional whose None-ness the path condition has already excluded (`if x is None: raise`)
        return z3.And(z3.Not(v.is_none), tobool(in_python_domain(ctx, d, v.val, contract)))
    if k in ("be", "le"):
        lo, hi = kafka.be_range(d[1], d[2])
        if not isinstance(v, (int, SInt)) or isinstance(v, bool):
            return False
        return z3.And(zint(v) >= lo, zint(v) <= hi)
    if k == "bool":
        return isinstance(v, (bool, SBool))
    if k == "f64":
        return isinstance(v, float) or (isinstance(v, SOpaque) and v.kind == "float")
    if k == "uv":
        if not isinstance(v, (int, SInt)):
            return False
        hi = 128 ** (contract.maxbytes if contract and contract.maxbytes else 10)
        return z3.And(zint(v) >= 0, zint(v) < hi)
    if k == "clen":
        return z3.And(zint(v) >= -1, zint(v) < domains.UV5 - 1) if isinstance(v, (int, SInt)) else False
    if k == "sv":
        b = 2 ** 34 if d[1] == 32 else 2 ** 69
        return z3.And(zint(v) >= -b, zint(v) < b) if isinstance(v, (int, SInt)) else False
    if k in ("ncstr", "nlstr", "ncbytes", "nlbytes", "nts", "nent"):
        if v is None:
            return True
        if isinstance(v, SOpt):
            return z3.Or(v.is_none, tobool(in_python_domain(ctx, (k[1:],) + tuple(d[1:]), v.val)))
        return in_python_domain(ctx, (k[1:],) + tuple(d[1:]), v)
    if k in ("cstr", "lstr"):
        return isinstance(v, (str, SStr))
    if k in ("cbytes", "lbytes"):
        return isinstance(v, (bytes, SBytes))
    if k == "uuid":
        if v is None:
            return True
        if isinstance(v, SOpt):
            v = v.val
        import uuid
        return isinstance(v, uuid.UUID) or (isinstance(v, SOpaque) and v.kind == "uuid")
    if k == "errcode":
        return isinstance(v, SOpaque) and v.kind == "enum:ErrorCode" or type(v).__name__ == "ErrorCode"
    if k == "nb":
        if isinstance(v, SOpt):
            v = v.val
        return v is None or isinstance(v, (bytes, SBytes))
    if k == "td":
        return isinstance(v, SOpaque) and v.kind == "timedelta" or type(v).__name__ == "timedelta"
    if k == "ts":
        if isinstance(v, SOpaque) and v.kind == "datetime":
            return z3.And(v.t >= 0, v.t % 1000 == 0)
        return False
    if k in ("carr", "larr"):
        if isinstance(v, SOpt):
            v = v.val
        return v is None or isinstance(v, (tuple, SSeq))
    if k == "absitem":
        return isinstance(v, SOpaque) and v.kind == "absitem"
    if k == "ent":
        from kvc.core import SRec
        from spec import schema_spec
        if isinstance(v, SRec):
            if v.cls is not d[1]:
                return False
            conds = []
            for fs in schema_spec.field_plan(d[1]):
                fd = fs.desc
                if fs.tag is not None and fs.nullable:
                    fd = CS.nullable_sibling(fd) or fd
                c = in_python_domain(ctx, fd, v.fields[fs.name])
                if c is False:
                    return False
                if c is not True:
                    conds.append(tobool(c))
            return z3.And(*conds) if conds else True
        return type(v) is d[1]
    raise Undecided(f"in_python_domain {d}")


# ------------------------------------------------------------------------------ body refines contract (generic)
def verify_refines(reg, fn, contract, make, unit, compare_on_raise=True, inline=None, inline_phantom=False, setup=None,
                   models=None, replayer_factory=None, history_replayer=None):
    """Run the contract (as the callers see it) and the real body on identical generic inputs
    and require identical outcomes: same return value / same exception class, same bytes
    appended to every sink, same remainder of every source."""
    res = Result(unit)
    if history_replayer is not None:
        res.history_replayer = history_replayer

    def run(ctx, res=res):
        a_body, a_spec, pairs, info = make(ctx)
        if replayer_factory is not None:
            res.replayer = replayer_factory(info)
        it = make_interp(ctx, reg, exclude=fn, inline=inline, models=models)
        it.inline_phantom = inline_phantom
        if setup is not None:
            setup(it)
        try:
            sv = contract.apply(it, list(a_spec), {})
            spec_out = Outcome("return", sv)
        except PyRaise as r:
            spec_out = Outcome("raise", exc=r.cls)
        n_pre = len(ctx.obligations)
        out = run_body(it, fn, list(a_body))
        if spec_out.kind != out.kind or (out.kind == "raise" and out.exc is not spec_out.exc):
            path_obligation(res, ctx, f"{unit}/outcome", z3.BoolVal(False), expected=repr(spec_out), got=repr(out), **info)
        else:
            path_obligation(res, ctx, f"{unit}/outcome", z3.BoolVal(True), expected=repr(spec_out), got=repr(out), **info)
            if out.kind == "return":
                path_obligation(res, ctx, f"{unit}/value", tobool(sym_eq(out.value, spec_out.value, ctx)),
                                expected=repr(spec_out.value), got=repr(out.value), **info)
            if out.kind == "return" or compare_on_raise:
                for kind, b, s in pairs:
                    if kind == "sink":
                        cond = equalise(ctx, b.out(), s.out())
                        path_obligation(res, ctx, f"{unit}/bytes-written", tobool(cond), expected=repr(s.out()),
                                        got=repr(b.out()), **info)
                    elif out.kind == "return":
                        cond = equalise(ctx, b.rest(), s.rest())
                        path_obligation(res, ctx, f"{unit}/remaining-input", tobool(cond), expected=repr(s.rest()),
                                        got=repr(b.rest()), **info)
        collect(res, ctx)
    explore_unit(res, run)
    return res


def verify_read_exact(reg):
    import kio.serial.readers as R
    fn = R.read_exact
    contract = reg.lookup(fn)

    def make(ctx):
        r = ctx.bytes_const("input")
        n = SInt(ctx.int_const("n"))
        b, s = Source(ctx, [Raw(r)]), Source(ctx, [Raw(r)])
        return [b, n], [s, n], [("source", b, s)], {"source": [Raw(r)], "n": n}
    return verify_refines(reg, fn, contract, make, "L1/reader/read_exact/refines-contract")


def verify_zigzag(reg):
    import kio.serial.readers as R
    fn = getattr(R, "_zigzag_decode", None)       # private helper: when absent its replacement is verified inside the callers
    out = []

    def make(ctx):
        v = SInt(ctx.int_const("value", 0))
        return [v], [v], [], {"value": v}
    if fn is not None:
        contract = reg.lookup(fn)
        out.append(verify_refines(reg, fn, contract, make, "L1/reader/_zigzag_decode/refines-contract"))
    # lemma: the contract function inverts zig-zag encoding (spec-level, both widths)
    res = Result("L1/lemma/zigzag-inverse")
    for bits in (32, 64):
        ctx = Ctx()
        v = ctx.int_const("v", -(2 ** (bits - 1)), 2 ** (bits - 1) - 1)
        z = kafka.zz(v, bits)
        back = z3.If(z % 2 == 0, z / 2, -((z + 1) / 2))
        path_obligation(res, ctx, f"L1/lemma/zigzag-inverse/{bits}", z3.And(back == v, z >= 0, z < 2 ** bits))
    out.append(res)
    return out


def verify_empty_tagged(reg):
    import kio.serial.writers as W
    fn = W.write_empty_tagged_fields
    contract = reg.lookup(fn)

    def make(ctx):
        b, s = Sink(ctx), Sink(ctx)
        return [b], [s], [("sink", b, s)], {}
    return verify_refines(reg, fn, contract, make, "L1/writer/write_empty_tagged_fields/refines-contract")


def tagged_writers_in_use():
    """the distinct payload writers that real plans pass to write_tagged_field: leaf writers by name, and
    one representative closure per array factory x item / per nested entity class kind"""
    import kio.serial.writers as W
    from checks import l2
    from contracts.entity import plan_callables
    from kio.serial import entity_writer
    leaf, closures = set(), {}
    for T in l2.all_entities():
        _, tagged = plan_callables(entity_writer(T))
        for _, fn in tagged.values():
            name = getattr(fn, "__name__", "")
            if getattr(W, name, None) is fn:
                leaf.add(name)
            else:
                closures.setdefault(getattr(fn, "__qualname__", "?").split(".<locals>.")[0] + "/" +
                                    str(sorted(getattr(c, "__name__", "?") for c in (x.cell_contents for x in (fn.__closure__ or ()))
                                               if callable(c) and not isinstance(c, type))[:1]), fn)
    return sorted(leaf), [closures[k] for k in sorted(closures)][:12]


def verify_tagged_field(reg):
    """write_tagged_field against its contract, for every payload writer that real plans hand to it (the proof is
    parametric in the payload writer's CONTRACT, but the body could special-case particular writer functions, so each
    one in use is an instantiation of its own)"""
    import kio.serial.writers as W
    from contracts import entity as CE
    reg = CS.Registry(extra=CE.extra_lookup)      # the nested-entity closures among the writers need their class contracts
    fn = W.write_tagged_field
    contract = reg.lookup(fn)
    results = []
    try:
        leaf, closures = tagged_writers_in_use()
    except Exception:        # noqa: BLE001
        leaf, closures = [], []
    names = sorted(set(leaf) | {"write_int32", "write_compact_string", "write_uuid"})
    writers = [(n, getattr(W, n)) for n in names if hasattr(W, n)] + [(f"closure:{getattr(c, '__qualname__', '?')}", c) for c in closures]
    for wname, wfn in writers:
        wc = reg.lookup(wfn)
        if wc is None:
            from contracts import entity as CE
            wc = CE.extra_lookup(wfn, reg)
        if wc is None or not getattr(wc, "kinds", None):
            continue
        for kind in wc.kinds[:1]:
            def make(ctx, wfn=wfn, wc=wc, kind=kind):
                b, s = Sink(ctx), Sink(ctx)
                tag = SInt(ctx.int_const("tag", 0, domains.UV5 - 1))
                value = generic_arg(ctx, kind, "v")
                req = wc.requires(ctx, value)
                if req is not True:
                    ctx.assume(req)
                # Dom: the payload of a tagged field is shorter than 2^35 bytes (its size is a 5-byte varint)
                payload = Enc(wc.desc(value), value)
                for f_ in kafka.length_facts(payload):
                    ctx.assume(f_)
                ctx.assume(z3.And(zint(payload.length()) >= 0, zint(payload.length()) < domains.UV5))
                return [b, tag, wfn, value], [s, tag, wfn, value], [("sink", b, s)], {"value": value, "tag": tag}
            results.append(verify_refines(reg, fn, contract, make,
                                          f"L1/writer/write_tagged_field[{wname}]/refines-contract"))
    return results


# ------------------------------------------------------------------------------ array combinators (parametric)
def _abs_item_writer(buffer, item):        # never executed: stands for any contracted item writer
    raise AssertionError("abstract item writer is specification-only")


def _abs_item_reader(buffer):              # never executed: stands for any contracted item reader
    raise AssertionError("abstract item reader is specification-only")


def abstract_item_registry():
    """registry in which an abstract item codec `absitem` (any encoding of length >= 1 with a
    writer and a reader satisfying the M/T/G clauses) is available to the array factories"""
    reg = CS.Registry()
    wc = CS.WriterContract("abs_item_writer", ("absitem",), [("absitem",)], param="item")
    rc = CS.ReaderContract("abs_item_reader", ("absitem",), (ValueError,))
    reg.by_id[id(_abs_item_writer)] = (_abs_item_writer, wc)
    reg.by_id[id(_abs_item_reader)] = (_abs_item_reader, rc)
    return reg


def concrete_array_items():
    """(factory name, item function name) for every array closure over a LEAF codec that occurs in the real
    plan of some class: the parametric proof over an abstract item says nothing about a factory that
    special-cases particular item functions (by identity), so each instantiation in use is verified too"""
    import kio.serial.readers as R
    import kio.serial.writers as W
    from checks import l2
    from contracts.entity import _cells, plan_callables
    from kio.serial import entity_reader, entity_writer
    out = set()

    def visit(fn):
        q = getattr(fn, "__qualname__", "")
        if "<locals>" not in q or getattr(fn, "__module__", "") not in ("kio.serial.readers", "kio.serial.writers"):
            return
        factory = q.split(".<locals>.")[0]
        c = _cells(fn)
        item = c.get("item_writer") or c.get("item_reader")
        if item is None:
            cand = [v for v in c.values() if callable(v) and not isinstance(v, type)]
            item = cand[0] if len(cand) == 1 else None
        if item is None:
            return
        mod = W if fn.__module__ == "kio.serial.writers" else R
        if getattr(mod, getattr(item, "__name__", ""), None) is item and hasattr(mod, factory):
            out.add((fn.__module__.rsplit(".", 1)[1], factory, item.__name__))
    for T in l2.all_entities():
        for api in (entity_writer, entity_reader):
            reg_, tag_ = plan_callables(api(T))
            for f in reg_.values():
                visit(f)
            for _, f in tag_.values():
                visit(f)
    return sorted(out)


def verify_arrays(which="wr", clauses=("match", "null", "trunc", "general"), concrete=True):
    import kio.serial.readers as R
    import kio.serial.writers as W
    reg = abstract_item_registry()
    results = []
    for factory, kind in ((W.compact_array_writer, "carr"), (W.legacy_array_writer, "larr")) if "w" in which else ():
        closure = factory(_abs_item_writer)
        c = reg.lookup(closure)
        if c is None:
            r = Result(f"L1/writer/{factory.__name__}")
            r.undecided.append((r.unit, "closure returned by the factory is not recognised (renamed?)"))
            results.append(r)
            continue
        results += verify_writer(reg, closure, c, label=f"{factory.__name__}[item]")
    for factory, kind in ((R.compact_array_reader, "carr"), (R.legacy_array_reader, "larr")) if "r" in which else ():
        closure = factory(_abs_item_reader)
        c = reg.lookup(closure)
        if c is None:
            r = Result(f"L1/reader/{factory.__name__}")
            r.undecided.append((r.unit, "closure returned by the factory is not recognised (renamed?)"))
            results.append(r)
            continue
        results += verify_reader(reg, closure, c, label=f"{factory.__name__}[item]", clauses=clauses)
    if concrete:
        creg = CS.Registry()
        for modname, fname, iname in concrete_array_items():
            if modname == "writers" and "w" in which:
                closure = getattr(W, fname)(getattr(W, iname))
                c = creg.lookup(closure)
                if c is None:
                    r = Result(f"L1/writer/{fname}[{iname}]")
                    r.undecided.append((r.unit, "array closure over a leaf codec is not recognised"))
                    results.append(r)
                    continue
                results += verify_writer(creg, closure, c, label=f"{fname}[{iname}]")
            elif modname == "readers" and "r" in which:
                closure = getattr(R, fname)(getattr(R, iname))
                c = creg.lookup(closure)
                if c is None:
                    r = Result(f"L1/reader/{fname}[{iname}]")
                    r.undecided.append((r.unit, "array closure over a leaf codec is not recognised"))
                    results.append(r)
                    continue
                results += verify_reader(creg, closure, c, label=f"{fname}[{iname}]", clauses=clauses)
    return results


# ------------------------------------------------------------------------------ replay on the real code
def small_model(ob):
    """prefer a model with short strings / byte strings / sequences (re-solve with size bounds)"""
    from kvc.core import blen as _blen, ulen as _ulen, Bsort, Ssort
    s = z3.Solver()
    s.set("timeout", 5000)
    for f in opaque.literal_facts():
        s.add(f)
    for p in ob.pc:
        s.add(p)
    goal = ob.goal if z3.is_expr(ob.goal) else z3.BoolVal(bool(ob.goal))
    s.add(z3.Not(goal))
    consts = set()

    def walk(e, seen=set()):
        if e.get_id() in seen:
            return
        seen.add(e.get_id())
        if z3.is_const(e) and e.decl().kind() == z3.Z3_OP_UNINTERPRETED:
            consts.add(e)
        for c in e.children():
            walk(c, seen)
    for p in ob.pc:
        walk(p)
    walk(goal)
    s.push()
    for c in consts:
        if c.sort() == Bsort:
            s.add(_blen(c) <= 40)
        elif c.sort() == Ssort:
            s.add(_ulen(c) <= 40)
        elif z3.is_int(c) and (str(c).endswith("_n")):
            s.add(c <= 3)
    if s.check() == z3.sat:
        return s.model()
    s.pop()
    return ob.model


class ReadOnlySource:
    """a source that offers nothing but read(n) (socket-like)"""

    def __init__(self, data):
        self._d, self.pos = bytes(data), 0

    def read(self, n=-1):
        n = len(self._d) - self.pos if n is None or n < 0 else n
        out = self._d[self.pos:self.pos + n]
        self.pos += len(out)
        return out


class WriteOnlySink:
    """a sink that offers nothing but write(b) and - like a transport with unsent data queued - KEEPS the objects it is
    handed until they are flushed"""

    def __init__(self):
        self.chunks = []

    def write(self, b):
        self.chunks.append(b)

    def getvalue(self):
        try:
            return b"".join(bytes(c) for c in self.chunks)
        except ValueError:          # a released memoryview: the writer handed over a view of a buffer it then closed
            return b"<released buffer>"


def native_outcome(thunk):
    try:
        return ("return", thunk())
    except BaseException as ex:     # noqa: BLE001 - the class is the observation
        return ("raise", type(ex))


def writer_replayer(fn, contract, value):
    def replay(ob):
        import io
        conc = domains.Concretiser(small_model(ob))
        v = conc.value(value)
        buf = io.BytesIO()
        kind, res = native_outcome(lambda: fn(buf, v))
        observed = {"outcome": kind, "exception": exc_name(res) if kind == "raise" else None,
                    "bytes": buf.getvalue().hex()}
        wo = WriteOnlySink()
        kind2, res2 = native_outcome(lambda: fn(wo, v))
        if (kind2, wo.getvalue()) != (kind, buf.getvalue()) or (kind2 == "raise" and res2 is not res):
            observed = {"outcome": kind2, "exception": exc_name(res2) if kind2 == "raise" else None, "bytes": wo.getvalue().hex(),
                        "stream": "write-only sink (differs from io.BytesIO)"}
        exp = contract.expect(Ctx(), v)
        if exp[0] == "raise":
            expected = {"outcome": "raise", "exception": exc_name(exp[1]), "bytes": ""}
        else:
            expected = {"outcome": "return", "exception": None,
                        "bytes": kafka.concrete(contract.desc(v), v).hex()}
        return {"confirmed": observed != expected, "function": f"{fn.__module__}:{fn.__qualname__}",
                "input": repr(v)[:400], "expected": expected, "observed": observed,
                "witness_class": classify_witness(v)}
    return replay


def classify_witness(v):
    import datetime
    if isinstance(v, datetime.timedelta):
        ms = v // datetime.timedelta(milliseconds=1)
        return "duration beyond 2^53 ms" if abs(ms) > 2 ** 53 else "duration"
    return None


def reader_replayer(fn, mode, contract, segs, value, cut=None, extra_args=(), allowed=()):
    def replay(ob):
        import io
        conc = domains.Concretiser(small_model(ob))
        data = conc.segs([s for s in segs])
        enc_len = None
        if mode in ("match", "null"):
            enc_len = len(conc.segs(segs[:1]))
        if cut is not None:
            data = data[:conc.int_(cut)]
        buf = io.BytesIO(data)
        kind, res = native_outcome(lambda: fn(buf, *extra_args))
        pos = buf.tell()
        ro = ReadOnlySource(data)
        kind2, res2 = native_outcome(lambda: fn(ro, *extra_args))
        stream = "io.BytesIO"
        if kind2 != kind or (kind == "raise" and res2 is not res) or (kind == "return" and (res2 != res or ro.pos != pos)):
            kind, res, pos, stream = kind2, res2, ro.pos, "read-only source (differs from io.BytesIO)"
        observed = {"outcome": kind, "value": repr(res)[:300] if kind == "return" else None,
                    "exception": exc_name(res) if kind == "raise" else None, "position": pos, "stream": stream}

        class _B:      # position of the deciding run
            @staticmethod
            def tell():
                return pos
        buf = _B
        if mode == "match":
            v = conc.value(value)
            ok = kind == "return" and res == v and type(res) is type(v) and buf.tell() == enc_len
            expected = {"outcome": "return", "value": repr(v)[:300], "position": enc_len}
        elif mode == "null":
            from kio.serial.errors import UnexpectedNull
            ok = kind == "raise" and res is UnexpectedNull
            expected = {"outcome": "raise", "exception": "UnexpectedNull"}
        else:
            from kio.serial.errors import BufferUnderflow
            ok = kind == "raise" and res is BufferUnderflow
            expected = {"outcome": "raise", "exception": "BufferUnderflow"}
        return {"confirmed": not ok, "function": f"{fn.__module__}:{getattr(fn, '__qualname__', fn)}",
                "input_bytes": data.hex()[:600], "input_len": len(data), "expected": expected, "observed": observed}
    return replay


def general_replayer(fn, contract, allowed, extra_args=(), samples=3000):
    """no model can describe arbitrary bytes usefully: search natively for a witness of the
    failed clause (bounded; a miss leaves the obligation failed without an input)"""
    def replay(ob):
        import io
        import random
        rnd = random.Random(int(__import__("os").environ.get("VERIF_SEED", "0") or 0))
        for i in range(samples):
            n = rnd.choice((0, 1, 2, 3, 4, 5, 8, 9, 16, 17, 24))
            data = bytes(rnd.choice((0, 1, 2, 0x7F, 0x80, 0x81, 0xFF, rnd.randrange(256))) for _ in range(n))
            for mk_stream, sname in ((io.BytesIO, "io.BytesIO"), (ReadOnlySource, "read-only source")):
                buf = mk_stream(data)
                kind, res = native_outcome(lambda: fn(buf, *extra_args))
                pos = buf.tell() if hasattr(buf, "tell") else buf.pos
                bad = (kind == "raise" and not any(res is a or (isinstance(res, type) and issubclass(res, a)) for a in allowed)) \
                    or pos > len(data)
                if bad:
                    return {"confirmed": True, "function": f"{fn.__module__}:{getattr(fn, '__qualname__', fn)}",
                            "input_bytes": data.hex(), "stream": sname, "input_len": len(data), "position": pos,
                            "expected": "one of " + ", ".join(exc_name(a) for a in allowed) + "; position <= input length",
                            "observed": {"outcome": kind, "exception": exc_name(res) if kind == "raise" else None}}
        return {"confirmed": None, "note": f"no failing input among {samples} sampled byte strings"}
    return replay


def verify_tz_aware(reg):
    import kio.serial.readers as R
    fn = R.tz_aware_from_i64
    contract = reg.lookup(fn)

    def make(ctx):
        ts = SInt(ctx.int_const("timestamp", -(2 ** 63), 2 ** 63 - 1))
        return [ts], [ts], [], {"timestamp": ts}
    return verify_refines(reg, fn, contract, make, "L1/reader/tz_aware_from_i64/refines-contract",
                          inline=lambda f: getattr(f, "__module__", "") in ("kio.static._phantom", "kio.static.primitive"),
                          inline_phantom=True)
