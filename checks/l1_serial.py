"""Level 1: every leaf reader/writer of kio.serial verified against its contract, body by body."""
from __future__ import annotations

import z3

from contracts import serial as CS
from kvc import opaque
from kvc.core import (Ctx, Enc, Lit, Mismatch, Obligation, PyRaise, Raw, SBytes, SInt, SOpt, SStr, Sym, Undecided,
                      blen, sym_eq, tobool, zint, normalise, total_len)
from kvc.models import Sink, Source
from kvc.verify import Outcome, Result, collect, equalise, explore_unit, make_interp, path_obligation, run_body
from spec import domains, kafka


def generic_arg(ctx, kind, name):
    if kind == ("anyint",):
        return SInt(ctx.int_const(name))
    return domains.generic(ctx, kind, name)


def exc_name(e):
    return getattr(e, "__name__", str(e))


# ------------------------------------------------------------------------------ writers
def verify_writer(reg, fn, contract, label=None):
    """for every kind of argument: body raises exactly the contracted error (nothing written)
    or appends exactly the spec encoding"""
    results = []
    for kind in contract.kinds:
        unit = f"L1/writer/{label or contract.name}/{'_'.join(map(str, kind))}"
        res = Result(unit)

        def run(ctx, kind=kind, res=res):
            sink = Sink(ctx)
            value = generic_arg(ctx, kind, "v")
            req = contract.requires(ctx, value)
            if req is not True:
                ctx.assume(req)
            res.info = {"value": value}
            it = make_interp(ctx, reg, exclude=fn)
            out = run_body(it, fn, [sink, value])
            exp = contract.expect(ctx, value)
            name = f"{unit}/path{len(res.obligations)}"
            if exp[0] == "raise":
                ok = out.kind == "raise" and out.exc is exp[1]
                path_obligation(res, ctx, f"{unit}/raises-{exc_name(exp[1])}", z3.BoolVal(ok),
                                expected=f"raise {exc_name(exp[1])}", got=repr(out), value=value, sink=sink)
                if ok:
                    path_obligation(res, ctx, f"{unit}/nothing-written-on-raise",
                                    z3.BoolVal(len(sink.out()) == 0), value=value, sink=sink,
                                    expected="no bytes", got=repr(sink.out()))
            else:
                if out.kind != "return":
                    path_obligation(res, ctx, f"{unit}/returns", z3.BoolVal(False),
                                    expected="normal return", got=repr(out), value=value, sink=sink)
                else:
                    cond = equalise(ctx, sink.out(), exp[1])
                    path_obligation(res, ctx, f"{unit}/emits-spec-encoding", tobool(cond) if cond is not True else z3.BoolVal(True),
                                    expected=repr(exp[1]), got=repr(sink.out()), value=value, sink=sink)
                    path_obligation(res, ctx, f"{unit}/returns-None", z3.BoolVal(out.value is None), value=value,
                                    sink=sink)
            collect(res, ctx)
        explore_unit(res, run)
        results.append(res)
    return results


# ------------------------------------------------------------------------------ readers
def verify_reader(reg, fn, contract, extra_args=(), label=None):
    results = []
    d = contract.desc
    label = label or contract.name
    # ---- M: match
    unit = f"L1/reader/{label}/match"
    res = Result(unit)

    def run_m(ctx, res=res):
        v = domains.generic(ctx, d if not contract.maxbytes else ("uv", 128 ** contract.maxbytes), "v")
        tail = ctx.bytes_const("tail")
        src = Source(ctx, [Enc(d, v), Raw(tail)])
        it = make_interp(ctx, reg, exclude=fn)
        out = run_body(it, fn, [src, *extra_args])
        if out.kind != "return":
            # a non-nullable reader on its own (non-null) encoding must not raise
            path_obligation(res, ctx, f"{unit}/returns", z3.BoolVal(False), expected="value", got=repr(out),
                            value=v, source=[Enc(d, v), Raw(tail)])
        else:
            eq = sym_eq(out.value, v)
            path_obligation(res, ctx, f"{unit}/value", tobool(eq), expected=repr(v), got=repr(out.value), value=v,
                            source=[Enc(d, v), Raw(tail)])
            cond = equalise(ctx, src.rest(), [Raw(tail)])
            path_obligation(res, ctx, f"{unit}/exact-consumption", tobool(cond), expected="rest == tail",
                            got=repr(src.rest()), value=v, source=[Enc(d, v), Raw(tail)])
        collect(res, ctx)
    explore_unit(res, run_m)
    results.append(res)

    # ---- N: null form for a non-nullable reader
    sib = CS.nullable_sibling(d)
    if sib is not None and d[0] not in ("ent", "ts"):
        from kio.serial.errors import UnexpectedNull
        unit = f"L1/reader/{label}/null"
        res = Result(unit)

        def run_n(ctx, res=res):
            tail = ctx.bytes_const("tail")
            src = Source(ctx, [Enc(sib, None), Raw(tail)])
            it = make_interp(ctx, reg, exclude=fn)
            out = run_body(it, fn, [src, *extra_args])
            path_obligation(res, ctx, f"{unit}/raises-UnexpectedNull",
                            z3.BoolVal(out.kind == "raise" and out.exc is UnexpectedNull),
                            expected="raise UnexpectedNull", got=repr(out), value=None,
                            source=[Enc(sib, None), Raw(tail)])
            collect(res, ctx)
        explore_unit(res, run_n)
        results.append(res)

    # ---- T: truncation
    from kio.serial.errors import BufferUnderflow
    unit = f"L1/reader/{label}/trunc"
    res = Result(unit)

    def run_t(ctx, res=res):
        v = domains.generic(ctx, d if not contract.maxbytes else ("uv", 128 ** contract.maxbytes), "v")
        enc = Enc(d, v)
        for f in kafka.length_facts(enc):
            ctx.assume(f)
        cut = ctx.int_const("cut", 0)
        ctx.assume(cut < zint(enc.length()))
        src = Source(ctx, [enc], avail=cut)
        it = make_interp(ctx, reg, exclude=fn)
        out = run_body(it, fn, [src, *extra_args])
        path_obligation(res, ctx, f"{unit}/raises-BufferUnderflow",
                        z3.BoolVal(out.kind == "raise" and out.exc is BufferUnderflow),
                        expected="raise BufferUnderflow", got=repr(out), value=v, source=[enc], cut=cut)
        collect(res, ctx)
    explore_unit(res, run_t)
    results.append(res)

    # ---- G: general
    unit = f"L1/reader/{label}/general"
    res = Result(unit)
    allowed = (BufferUnderflow,) + tuple(contract.general_errors)

    def run_g(ctx, res=res):
        r = ctx.bytes_const("input")
        src = Source(ctx, [Raw(r)])
        src.general = True
        it = make_interp(ctx, reg, exclude=fn)
        out = run_body(it, fn, [src, *extra_args])
        if out.kind == "raise":
            ok = any(out.exc is a for a in allowed)
            path_obligation(res, ctx, f"{unit}/only-contracted-errors", z3.BoolVal(ok),
                            expected="one of " + ", ".join(exc_name(a) for a in allowed), got=repr(out),
                            source=[Raw(r)])
        else:
            path_obligation(res, ctx, f"{unit}/result-in-domain", tobool(in_python_domain(ctx, d, out.value, contract)),
                            expected=f"value of Dom{d}", got=repr(out.value), source=[Raw(r)])
            # never reads beyond the input: consumed <= |input| holds by construction of the
            # source model (a read can only take what is left); state it as an obligation anyway
            path_obligation(res, ctx, f"{unit}/consumes-at-most-input",
                            zint(src.consumed) <= blen(r), source=[Raw(r)])
        collect(res, ctx)
    explore_unit(res, run_g)
    results.append(res)
    return results


def in_python_domain(ctx, d, v, contract=None):
    """the value a reader returns on arbitrary input is one the matching writer accepts"""
    from kvc.core import SBool, SOpaque, SSeq
    k = d[0]
    if k in ("be", "le"):
        lo, hi = kafka.be_range(d[1], d[2])
        if not isinstance(v, (int, SInt)) or isinstance(v, bool):
            return False
        return z3.And(zint(v) >= lo, zint(v) <= hi)
    if k == "bool":
        return isinstance(v, (bool, SBool))
    if k == "f64":
        return isinstance(v, float) or (isinstance(v, SOpaque) and v.kind == "float")
    if k == "uv":
        if not isinstance(v, (int, SInt)):
            return False
        hi = 128 ** (contract.maxbytes if contract and contract.maxbytes else 10)
        return z3.And(zint(v) >= 0, zint(v) < hi)
    if k == "clen":
        return z3.And(zint(v) >= -1, zint(v) < domains.UV5 - 1) if isinstance(v, (int, SInt)) else False
    if k == "sv":
        b = 2 ** 34 if d[1] == 32 else 2 ** 69
        return z3.And(zint(v) >= -b, zint(v) < b) if isinstance(v, (int, SInt)) else False
    if k in ("ncstr", "nlstr", "ncbytes", "nlbytes", "nts", "nent"):
        if v is None:
            return True
        if isinstance(v, SOpt):
            return z3.Or(v.is_none, tobool(in_python_domain(ctx, (k[1:],) + tuple(d[1:]), v.val)))
        return in_python_domain(ctx, (k[1:],) + tuple(d[1:]), v)
    if k in ("cstr", "lstr"):
        return isinstance(v, (str, SStr))
    if k in ("cbytes", "lbytes"):
        return isinstance(v, (bytes, SBytes))
    if k == "uuid":
        if v is None:
            return True
        if isinstance(v, SOpt):
            v = v.val
        import uuid
        return isinstance(v, uuid.UUID) or (isinstance(v, SOpaque) and v.kind == "uuid")
    if k == "errcode":
        return isinstance(v, SOpaque) and v.kind == "enum:ErrorCode" or type(v).__name__ == "ErrorCode"
    raise Undecided(f"in_python_domain {d}")
