"""Facts about the shipped schema package extracted twice and independently: from the module
ASTs on disk and from the live classes.  Used by the ground obligations of C08, C09, C13, C14, C15."""
from __future__ import annotations

import ast
import dataclasses
import importlib
import os
import pkgutil
import re

import boot  # noqa: F401


def schema_root():
    import kio.schema
    return os.path.dirname(kio.schema.__file__)


def walk_modules():
    """(module name, file path) for every <api>/v<N>/<type>.py below kio/schema, by walking the
    directory tree (independent of codegen.introspect_schema and of the index)"""
    root = schema_root()
    out = []
    for api in sorted(os.listdir(root)):
        d = os.path.join(root, api)
        if not os.path.isdir(d) or api.startswith("__"):
            continue
        for v in sorted(os.listdir(d)):
            m = re.fullmatch(r"v(\d+)", v)
            vd = os.path.join(d, v)
            if not m or not os.path.isdir(vd):
                continue
            for f in sorted(os.listdir(vd)):
                if f.endswith(".py") and f != "__init__.py":
                    out.append((f"kio.schema.{api}.{v}.{f[:-3]}", os.path.join(vd, f), api, int(m.group(1)), f[:-3]))
    return out


def _const(node):
    """value of `i16(15)`, `True`, `EntityType.request`, `RequestHeader` in a class-variable assignment"""
    if isinstance(node, ast.Constant):
        return node.value
    if isinstance(node, ast.Call) and len(node.args) == 1 and isinstance(node.args[0], (ast.Constant, ast.UnaryOp)):
        try:
            return ast.literal_eval(node.args[0])
        except Exception:
            return ast.unparse(node)
    if isinstance(node, ast.Attribute):
        return ast.unparse(node)
    if isinstance(node, ast.Name):
        return node.id
    return ast.unparse(node)


def ast_classes(path):
    """per class: class variables, dataclass decorator keywords, field declarations, header import"""
    with open(path, "rb") as fh:
        tree = ast.parse(fh.read(), path)
    header_import = None
    for node in tree.body:
        if isinstance(node, ast.ImportFrom) and node.module and "_header." in node.module:
            header_import = node.module
    out = []
    for node in tree.body:
        if not isinstance(node, ast.ClassDef):
            continue
        deco = {}
        is_dc = False
        for d in node.decorator_list:
            if isinstance(d, ast.Call) and getattr(d.func, "id", getattr(d.func, "attr", "")) == "dataclass":
                is_dc = True
                deco = {k.arg: _const(k.value) for k in d.keywords}
            elif getattr(d, "id", "") == "dataclass":
                is_dc = True
        classvars = {}
        fields = []
        methods = []
        for st in node.body:
            if isinstance(st, ast.AnnAssign) and isinstance(st.target, ast.Name):
                ann = ast.unparse(st.annotation)
                if ann.startswith("ClassVar"):
                    classvars[st.target.id] = _const(st.value) if st.value is not None else None
                else:
                    meta, default = {}, "<missing>"
                    if isinstance(st.value, ast.Call) and getattr(st.value.func, "id", "") == "field":
                        for k in st.value.keywords:
                            if k.arg == "metadata":
                                try:
                                    meta = ast.literal_eval(k.value)
                                except Exception:
                                    meta = {"<unparsable>": ast.unparse(k.value)}
                            elif k.arg == "default":
                                default = ast.unparse(k.value)
                            else:
                                meta.setdefault("<other field() kwargs>", []).append(k.arg)
                    elif st.value is not None:
                        default = ast.unparse(st.value)
                    fields.append({"name": st.target.id, "annotation": ann, "metadata": meta, "default": default})
            elif isinstance(st, (ast.FunctionDef, ast.AsyncFunctionDef)):
                methods.append(st.name)
            elif isinstance(st, ast.Assign):
                for t in st.targets:
                    if isinstance(t, ast.Name):
                        classvars[t.id] = _const(st.value)
        out.append({"name": node.name, "is_dataclass": is_dc, "decorator": deco, "classvars": classvars,
                    "fields": fields, "methods": methods, "bases": [ast.unparse(b) for b in node.bases],
                    "lineno": node.lineno})
    return out, header_import


def snake(name):
    """CamelCase -> snake_case as the package layout uses it (acronyms stay together)"""
    s = re.sub(r"(?<=[a-z0-9])(?=[A-Z])", "_", name)
    s = re.sub(r"(?<=[A-Z])(?=[A-Z][a-z])", "_", s)
    return s.lower()


def live_classes(modname):
    mod = importlib.import_module(modname)
    return [v for v in vars(mod).values()
            if isinstance(v, type) and v.__module__ == modname and dataclasses.is_dataclass(v)]
