"""C03 - the decoder accepts every *conforming* encoding (Conf_T), not only kio's own canonical
output: tagged fields may be sent explicitly with their default value (including an explicit
null for a nullable field), and the tagged section may contain any number of tagged fields this
schema version does not know, interleaved in ascending tag order, each uv(tag) uv(|p|) p with an
arbitrary payload p.  Expected result: exactly the values on the wire, absent tagged fields at
their defaults, unknown ones skipped by their size prefix, nothing else consumed.

The tagged loop of read_entity has a symbolic iteration count here. It is executed structurally:
a known entry is one real iteration; a *run* of unknown entries of arbitrary length is summarised
by induction - the step obligation is the loop body executed on one arbitrary unknown entry: it
must consume exactly that entry and leave the collected values unchanged.
"""
from __future__ import annotations

import itertools

import z3

from checks import common
from kvc.core import (Enc, Lit, Mismatch, PyRaise, Raw, SBytes, SInt, SOpt, SRec, SSeq, Sym, Undecided, blen,
                      equalise, lower, sym_eq, tobool, zint)


class UEntry(Sym):
    """an unknown tagged field: (tag, payload)"""

    def __init__(self, tag, payload):
        self.tag = tag
        self.payload = payload


def install_unfold():
    """teach the spec the two Conf-only encodings (defined here, next to Conf_T)"""
    from spec import kafka
    if getattr(kafka, "_conf_installed", False):
        return
    base = kafka._unfold

    def _unfold(ctx, seg):
        d = seg.codec
        if d[0] == "uentry":
            e = seg.args[0]
            return [Enc(("uv",), lower(e.tag)), Enc(("uv",), lower(blen(e.payload))), Raw(e.payload)]
        return base(ctx, seg)
    kafka._unfold = _unfold
    base_min = kafka.min_len

    def min_len(d):
        if d[0] == "uentry":
            return 2
        if d[0] == "urun":
            return 0
        return base_min(d)
    kafka.min_len = min_len
    kafka._conf_installed = True


def conf_loop(interp, st, rng, fr):
    """structured execution of `for _ in range(n)` over a Conf_T tagged section"""
    from kvc import loops
    from kvc.models import Source
    from spec import kafka
    ctx = interp.ctx
    srcs = loops._sources(fr)
    if len(srcs) != 1:
        raise Undecided("tagged loop: cannot identify the source")
    src = srcs[0][1]
    if getattr(src, "general", False):
        return loops.range_loop_general(interp, st, rng, fr)
    remaining = z3.simplify(zint(rng.hi) - zint(rng.lo))
    for _ in range(64):
        if ctx.entails(remaining == 0):
            interp.block(st.orelse, fr)
            return
        if ctx.entails(remaining < 0):
            interp.block(st.orelse, fr)
            return
        head = src.head()
        if isinstance(head, Enc) and head.codec[0] == "urun":
            seq = head.args[0]
            if ctx.entails(seq.n == 0):
                src.pop_head()
                continue
            # ---- induction step: one arbitrary unknown entry
            k = ctx.int_const(ctx.fresh("k"), 0)
            ctx.assume(k < seq.n)
            entry = seq.item(SInt(k))
            tailc = ctx.bytes_const(ctx.fresh("after_entry"))
            temp = Source(ctx, [Enc(("uentry",), entry), Raw(tailc)])
            dicts = {n: dict(v) for n, v in fr.env.items() if isinstance(v, dict) and id(v) in interp.fresh_ids}
            sub = {n: (temp if v is src else v) for n, v in fr.env.items()}
            from kvc.interp import Frame, ContinueEx, BreakEx
            f2 = Frame(fr.fn, sub)
            f2.globals = fr.globals
            interp.assign(st.target, SInt(ctx.int_const(ctx.fresh("i"), 0)), f2)
            try:
                interp.block(st.body, f2)
            except ContinueEx:
                pass
            except BreakEx:
                # the loop stops at an unknown entry: everything from here on stays unread
                ctx.oblige("conf/unknown-tag-step/loop-does-not-stop-at-an-unknown-tag", z3.BoolVal(False))
                return
            ctx.oblige("conf/unknown-tag-step/skips-exactly-the-entry",
                       tobool(equalise(ctx, temp.rest(), [Raw(tailc)])))
            same = all(n in f2.env and f2.env[n] is fr.env[n] and dict(f2.env[n]) == old for n, old in dicts.items())
            ctx.oblige("conf/unknown-tag-step/collected-values-unchanged", z3.BoolVal(same))
            src.pop_head()
            remaining = z3.simplify(remaining - seq.n)
            continue
        # ---- a known entry (or anything else): one real iteration
        interp.assign(st.target, 0, fr)
        from kvc.interp import ContinueEx, BreakEx
        try:
            interp.block(st.body, fr)
        except ContinueEx:
            pass
        except BreakEx:
            return          # `break`: the loop ends here, later entries stay unread (no `else` clause runs)
        remaining = z3.simplify(remaining - 1)
    raise Undecided("tagged loop did not finish structurally")


def conf_replayer(T, r, x, present, explicit_null, uruns):
    def replay(ob):
        import io
        from checks.l1_serial import native_outcome, small_model
        from spec import domains, kafka, schema_spec
        conc = domains.Concretiser(small_model(ob))
        v = conc.value(x)
        tags = schema_spec.tagged_fields(T)

        def build(with_unknown):
            data = b""
            for fs in schema_spec.field_plan(T):
                if fs.tag is None:
                    data += kafka.concrete(fs.desc, getattr(v, fs.name))
            entries = []
            used = {fs.tag for fs in tags}
            state = {"nxt": 0, "unknown": 0}

            def unknown(n):
                out = []
                for _ in range(n if with_unknown else 0):
                    while state["nxt"] in used:
                        state["nxt"] += 1
                    out.append(kafka.concrete(("uv",), state["nxt"]) + kafka.concrete(("uv",), 2) + b"\xaa\xbb")
                    used.add(state["nxt"])
                    state["nxt"] += 1
                    state["unknown"] += 1
                return out
            for i, fs in enumerate(tags):
                entries += unknown(min(2, max(0, conc.int_(uruns[i].n))))
                state["nxt"] = max(state["nxt"], fs.tag + 1)
                if present[fs.name]:
                    p = b"\x00" if fs.name in explicit_null else kafka.concrete(fs.desc, getattr(v, fs.name))
                    entries.append(kafka.concrete(("uv",), fs.tag) + kafka.concrete(("uv",), len(p)) + p)
            entries += unknown(min(2, max(1, conc.int_(uruns[len(tags)].n))))
            data += kafka.concrete(("uv",), len(entries)) + b"".join(entries)
            return data, state["unknown"]
        last = None
        for with_unknown in (False, True):
            data, n_unknown = build(with_unknown)
            from checks.l1_serial import ReadOnlySource
            buf = io.BytesIO(data + b"\x55")
            k, res = native_outcome(lambda: r(buf))
            ok = k == "return" and res == v and buf.tell() == len(data)
            if ok:
                ro = ReadOnlySource(data + b"\x55")
                k2, res2 = native_outcome(lambda: r(ro))
                if not (k2 == "return" and res2 == v and ro.pos == len(data)):
                    ok, k, res = False, k2, res2

                    class buf:       # noqa: N801 - position of the deciding (read-only) run
                        @staticmethod
                        def tell():
                            return ro.pos
            wc = "unknown tagged field" if n_unknown else ("explicit null for a nullable tagged field" if explicit_null else None)
            last = {"confirmed": not ok, "class": f"{T.__module__}:{T.__qualname__}", "input_bytes": data.hex()[:600],
                    "expected": {"value": repr(v)[:400], "position": len(data)},
                    "observed": {"outcome": k, "value": repr(res)[:400], "position": buf.tell()}, "witness_class": wc}
            if not ok:
                return last
        return last
    return replay


def run_class(key):
    from checks import l2
    from contracts import entity as CE
    from contracts import serial as CS
    from kio.serial import entity_reader
    from kvc.models import Source
    from kvc.verify import Result, collect, explore_unit, make_interp, path_obligation, run_body
    from spec import domains, kafka, schema_spec
    install_unfold()
    T = l2.resolve(key)
    if not T.__flexible__:
        return []           # no tagged section: Conf_T is the canonical encoding (clause `match`)
    reg = CS.Registry(extra=CE.extra_lookup)
    r = entity_reader(T)
    short = key.replace("kio.schema.", "")
    tags = schema_spec.tagged_fields(T)
    out = []
    # presence patterns of the known tagged fields; a present nullable field may carry an explicit null
    patterns = []
    for bits in itertools.product((False, True), repeat=len(tags)):
        present = {fs.name: b for fs, b in zip(tags, bits)}
        patterns.append((present, ()))
        for fs, b in zip(tags, bits):
            if b and fs.nullable and fs.desc[0] in ("cstr", "cbytes"):
                patterns.append((present, (fs.name,)))
    res = Result(f"L2/{short}/conf")
    for present, explicit_null in patterns:
        label = ",".join(f"{n}={'null' if n in explicit_null else ('sent' if p else 'absent')}" for n, p in present.items()) or "no-known-tags"

        def run(ctx, present=present, explicit_null=explicit_null, label=label):
            x = schema_spec.generic_entity(ctx, T, "x")
            for fs in tags:
                if not present[fs.name]:
                    x.fields[fs.name] = schema_spec.default_of(fs)
                elif fs.name in explicit_null:
                    x.fields[fs.name] = None
                elif isinstance(x.fields[fs.name], SOpt):
                    ctx.assume(z3.Not(x.fields[fs.name].is_none))
                    x.fields[fs.name] = x.fields[fs.name].val if fs.desc[0] != "uuid" else x.fields[fs.name]
            segs = [Enc(fs.desc, x.fields[fs.name]) for fs in schema_spec.field_plan(T) if fs.tag is None]
            known_tags = [fs.tag for fs in tags]
            uruns = []
            entries = []
            total = z3.IntVal(0)

            def urun(i):
                n = ctx.int_const(f"unknown_run{i}_n", 0, 1000)

                def mk(k, _i=i):
                    t = ctx.int_const(f"utag{_i}[{k}]", 0, 2 ** 31 - 1)
                    for kt in known_tags:
                        ctx.assume(t != kt)
                    p = ctx.bytes_const(f"upayload{_i}[{k}]")
                    ctx.assume(blen(p) < 2 ** 31)
                    return UEntry(t, p)
                seq = SSeq(n, f"unknown_run{i}", mk)
                uruns.append(seq)
                e = Enc(("urun",), seq)
                ctx.assume(zint(e.length()) >= 0)
                ctx.assume(z3.Implies(n == 0, zint(e.length()) == 0))
                return e
            for i, fs in enumerate(tags):
                entries.append(urun(i))
                total = total + uruns[-1].n
                if present[fs.name]:
                    if fs.name in explicit_null:
                        payload = Enc(CS.nullable_sibling(fs.desc), None)
                    else:
                        payload = Enc(fs.desc, x.fields[fs.name])
                    for f in kafka.length_facts(payload):
                        ctx.assume(f)
                    plen = payload.length()
                    entries += [Enc(("uv",), fs.tag), Enc(("uv",), plen if isinstance(plen, int) else lower(zint(plen))), payload]
                    total = total + 1
            entries.append(urun(len(tags)))
            total = total + uruns[-1].n
            segs.append(Enc(("uv",), lower(z3.simplify(total))))
            segs += entries
            tail = ctx.bytes_const("tail")
            src = Source(ctx, segs + [Raw(tail)])
            res.replayer = conf_replayer(T, r, x, present, explicit_null, uruns)
            it = make_interp(ctx, reg, exclude=r)
            it.loop_handler = lambda interp, st, itv, fr: conf_loop(interp, st, itv, fr)
            o = run_body(it, r, [src])
            name = f"{res.unit}/{label}"
            if o.kind != "return":
                path_obligation(res, ctx, f"{name}/decoding-succeeds", z3.BoolVal(False), expected="a value", got=repr(o))
            else:
                path_obligation(res, ctx, f"{name}/values-on-the-wire", tobool(sym_eq(o.value, x, ctx)),
                                expected="x (absent tagged fields at their defaults)", got=repr(o.value)[:300])
                path_obligation(res, ctx, f"{name}/exact-consumption", tobool(equalise(ctx, src.rest(), [Raw(tail)])),
                                expected="rest == tail", got=repr(src.rest())[:300])
            collect(res, ctx)
        explore_unit(res, run)
    out.append(common.summarise(res, [common.function_record(r)]))
    return out
