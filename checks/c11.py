"""C11 - primitive readers and writers implement the Kafka primitive encodings.

Every public function of kio.serial.readers / kio.serial.writers is verified, body by body,
against its contract (contracts/serial.py), whose encodings are the spec functions of
spec/kafka.py.  Functions whose body computes through floats are outside the subset and get the
bounded stand-in (checks/bounded_time.py), reported as bounded, never as proved.
"""
from __future__ import annotations

import boot  # noqa: F401
from checks import common

TIME_FUNCS = ("write_timedelta_i32", "write_timedelta_i64", "write_datetime_i64", "write_nullable_datetime_i64",
              "read_timedelta_i32", "read_timedelta_i64", "read_datetime_i64", "read_nullable_datetime_i64",
              "tz_aware_from_i64")


def units(tier):
    from contracts import serial as CS
    reg = CS.Registry()
    specs = [("writer", n) for n in reg.writers] + [("reader", n) for n in reg.readers]
    specs += [("special", n) for n in ("read_exact", "zigzag", "empty_tagged", "tagged_field", "arrays",
                                       "tz_aware_from_i64")]
    return specs, reg.missing


def _float_reason(u):
    return any("float" in r or "SInstantSeconds" in r or "total_seconds" in r for r in u["undecided"])


def run_unit(spec):
    import kio.serial.readers as R
    import kio.serial.writers as W
    from checks import l1_serial as L1
    from contracts import serial as CS
    kind, name = spec
    reg = CS.Registry()
    fns = []
    if kind == "writer":
        fn = getattr(W, name)
        results = L1.verify_writer(reg, fn, reg.writers[name])
        fns = [fn]
    elif kind == "reader":
        fn = getattr(R, name)
        results = L1.verify_reader(reg, fn, reg.readers[name])
        fns = [fn]
    elif name == "read_exact":
        results = [L1.verify_read_exact(reg)]
        fns = [R.read_exact]
    elif name == "zigzag":
        results = L1.verify_zigzag(reg)
        fns = [f for f in [getattr(R, '_zigzag_decode', None)] if f is not None]
    elif name == "empty_tagged":
        results = [L1.verify_empty_tagged(reg)]
        fns = [W.write_empty_tagged_fields]
    elif name == "tagged_field":
        results = L1.verify_tagged_field(reg)
        fns = [W.write_tagged_field]
    elif name == "arrays":
        results = L1.verify_arrays()
        fns = [W.compact_array_writer(L1._abs_item_writer), W.legacy_array_writer(L1._abs_item_writer),
               R.compact_array_reader(L1._abs_item_reader), R.legacy_array_reader(L1._abs_item_reader)]
    elif name == "tz_aware_from_i64":
        results = [L1.verify_tz_aware(reg)]
        fns = [R.tz_aware_from_i64]
    else:
        raise KeyError(spec)
    recs = [common.function_record(f) for f in fns]
    out = [common.summarise(r, recs) for r in results]
    if name in TIME_FUNCS and any(_float_reason(u) for u in out):
        # outside the subset (float): bounded stand-in, labelled as such
        from checks import bounded_time
        import os
        bound, n, fails = bounded_time.check_function(name, os.environ.get("VERIF_TIER", "quick"))
        return [{"unit": f"bounded/{name}", "obligations": [], "undecided": [], "paths": 0, "time": 0.0,
                 "functions": [], "bounded": {"name": f"bounded/{name}", "bound": bound, "evaluations": n,
                                              "failures": fails,
                                              "reason": "body computes through float (outside the verifier's subset)"}}]
    from checks.l2props import FLOAT_BODIES, _bounded
    if name in FLOAT_BODIES:
        out += _bounded(name, "validation of the float model (the function is proved under the standard model of "
                              "IEEE-754 rounding)")
    return out


def main(tier):
    import os
    os.environ["VERIF_TIER"] = tier
    rep = common.Report("C11", tier, "contract-based deductive verification: sidecar contracts on the real "
                        "kio.serial.readers/writers bodies (re-read from /repo with ast), VCs by symbolic execution, "
                        "discharged by z3 (cvc5 on unknown); float-based time conversions: bounded run-time contract check")
    specs, missing = units(tier)
    for m in missing:
        rep.add_ground(f"C11/contract-target-exists/{m}", False, "function under contract is missing (renamed or removed)")
    us = common.run_units("checks.c11", specs)
    for u in us:
        b = u.pop("bounded", None)
        if b:
            rep.add_bounded(b["name"], b["bound"] + "; " + b["reason"], b["evaluations"], b["failures"])
    rep.add_units(us)
    from checks import history
    n2, f2 = history.writers_history()
    rep.add_bounded("bounded/history-equal-but-distinct-arguments/writers",
                    f"{n2} ordered pairs of equal-but-distinct arguments (0.0/-0.0, 1/True/1.0, ...) over the fixed-width, float and "
                    "varint writers: the bytes must be those of the value actually written", n2, f2)
    validate_models(rep, tier)
    rt_pairs(rep)
    rep.assumptions += [
        "varints: write side proved for 0 <= v < 2^70 (precondition); signed varint writers for the 32/64-bit range",
        "string/bytes lengths below 2^31-1 (Kafka's own limit) are a precondition of the compact writers",
        "UTF-8 codec facts (decode(encode(s)) == s etc.) are assumed, see trusted_base",
        "bounded stand-ins are NOT proofs: " + ", ".join(b["name"] for b in rep.bounded) if rep.bounded else "no bounded stand-ins",
    ]
    return rep.finish("./vf check C11 --tier " + tier)


def rt_pairs(rep):
    """reader-after-writer identity: a writer proved to emit Enc(d, v) and a reader proved to
    return v on Enc(d, v) ++ tail compose to the identity; the ground obligation is that the
    paired functions carry the same descriptor."""
    from contracts import serial as CS
    reg = CS.Registry()
    pairs = [("write_boolean", "read_boolean"), ("write_int8", "read_int8"), ("write_int16", "read_int16"),
             ("write_int32", "read_int32"), ("write_int64", "read_int64"), ("write_uint8", "read_uint8"),
             ("write_uint16", "read_uint16"), ("write_uint32", "read_uint32"), ("write_uint64", "read_uint64"),
             ("write_unsigned_varint", "read_unsigned_varint"), ("write_unsigned_varlong", "read_unsigned_varlong"),
             ("write_signed_varint", "read_signed_varint"), ("write_signed_varlong", "read_signed_varlong"),
             ("write_float64", "read_float64"), ("write_uuid", "read_uuid"), ("write_error_code", "read_error_code"),
             ("write_nullable_legacy_string", "read_nullable_legacy_string"), ("write_legacy_string", "read_legacy_string"),
             ("write_nullable_legacy_bytes", "read_nullable_legacy_bytes"), ("write_legacy_bytes", "read_legacy_bytes"),
             ("write_compact_array_length", "read_compact_array_length"),
             ("write_timedelta_i32", "read_timedelta_i32"), ("write_timedelta_i64", "read_timedelta_i64"),
             ("write_datetime_i64", "read_datetime_i64"), ("write_nullable_datetime_i64", "read_nullable_datetime_i64")]
    for w, r in pairs:
        wc, rc = reg.writers.get(w), reg.readers.get(r)
        ok = wc is not None and rc is not None and not callable(wc._desc) and wc._desc == rc.desc
        rep.add_ground(f"C11/lemma/reader-after-writer/{w}+{r}", ok, f"{getattr(wc, '_desc', None)} vs {getattr(rc, 'desc', None)}")
    from kvc.core import SStr, SBytes
    import z3
    for w, rs, rb in (("write_compact_string", "read_compact_string", "read_compact_string_as_bytes"),
                      ("write_nullable_compact_string", "read_compact_string_nullable",
                       "read_compact_string_as_bytes_nullable")):
        wc = reg.writers[w]
        rep.add_ground(f"C11/lemma/reader-after-writer/{w}+{rs}", wc.desc(SStr(z3.StringVal("x"))) == reg.readers[rs].desc)
        rep.add_ground(f"C11/lemma/reader-after-writer/{w}+{rb}", wc.desc(SBytes([])) == reg.readers[rb].desc)


def validate_models(rep, tier):
    from kvc import validate
    n, fails = validate.run(tier)
    rep.extra["model_validation"] = {"evaluations": n, "disagreements": len(fails),
                                     "note": "differential check of the stdlib models and of the two interpretations of the spec functions against CPython; model validation, not proof"}
    for f in fails[:5]:
        rep.add_ground(f"C11/model-validation/{f['what']}", False, f)


if __name__ == "__main__":
    import sys
    sys.exit(main(sys.argv[1] if len(sys.argv) > 1 else "quick"))
