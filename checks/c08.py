"""C08 - header schema and request/response pairing follow the Kafka rules.

(a) codegen.header_schema: the three selection functions executed symbolically (apiKey, version,
    flexibility symbolic) against the rule in the property statement;
(b) ground, all payload classes: __header_schema__ is the class the rule gives for the class's own
    (api key, version, flexibility), read from the module AST (import line) and from the live class;
(c) request and response of the same (API, version) share api key and flexibility;
(d) load_response_from_request / load_request_from_response are mutually inverse (ground over all
    pairs; the lookup functions themselves are under contract in C09)."""
from __future__ import annotations

import sys

import boot  # noqa: F401
import z3

from checks import common, schema_facts as SF


def rule(kind, api_key, version, flexible):
    """the rule of the property statement; returns (module version of the header)"""
    if kind == "request":
        if version == 0 and api_key == 7:
            return 0
        return 2 if flexible else 1
    if api_key == 18:
        return 0
    return 1 if flexible else 0


def symbolic_units():
    import codegen.header_schema as H
    from codegen.parser import MessageSchema
    from codegen.versions import VersionRange
    from contracts import serial as CS
    from kvc.core import SBool, SInt, SRec, tobool
    from kvc.verify import Result, collect, explore_unit, make_interp, path_obligation, run_body
    reg = CS.Registry()
    out = []

    def inline(fn):
        return getattr(fn, "__module__", "") in ("codegen.header_schema", "codegen.versions")

    def expected_line(kind, v):
        return f"from kio.schema.{kind}_header.v{v}.header import {'Request' if kind == 'request' else 'Response'}Header\n"
    # _get_request_header_schema / _get_response_header_schema
    for kind, fn in (("request", H._get_request_header_schema), ("response", H._get_response_header_schema)):
        res = Result(f"C08/header_schema/{fn.__name__}")

        def run(ctx, kind=kind, fn=fn, res=res):
            key = SInt(ctx.int_const("apiKey"))
            ver = SInt(ctx.int_const("version", 0))
            flex = SBool(ctx.bool_const("is_flexible"))
            from kvc.core import SStr
            schema = SRec(MessageSchema, {"type": kind, "apiKey": key, "name": SStr(ctx.str_const("name"))})
            it = make_interp(ctx, reg, inline=inline)
            args = [schema, ver, flex] if kind == "request" else [schema, flex]
            o = run_body(it, fn, args)
            if o.kind != "return" or not isinstance(o.value, str):
                path_obligation(res, ctx, f"{res.unit}/returns-import-line", z3.BoolVal(False), got=repr(o))
            else:
                if kind == "request":
                    cond = {0: z3.And(ver.t == 0, key.t == 7),
                            2: z3.And(z3.Not(z3.And(ver.t == 0, key.t == 7)), flex.t),
                            1: z3.And(z3.Not(z3.And(ver.t == 0, key.t == 7)), z3.Not(flex.t))}
                else:
                    cond = {0: z3.Or(key.t == 18, z3.Not(flex.t)), 1: z3.And(key.t != 18, flex.t)}
                got = [v for v in cond if o.value == expected_line(kind, v)]
                ok = cond[got[0]] if got else z3.BoolVal(False)
                path_obligation(res, ctx, f"{res.unit}/follows-kafka-rule", ok, expected="the header version the rule gives",
                                got=o.value.strip())
            collect(res, ctx)
        explore_unit(res, run)
        out.append(common.summarise(res, [common.function_record(fn)]))
    # get_header_schema_import: dispatch on schema kind and on flexibleVersions.matches(version)
    res = Result("C08/header_schema/get_header_schema_import")
    for kind in ("request", "response"):
        for first_flex in (None, 0, 3):
            def run(ctx, kind=kind, first_flex=first_flex):
                key = SInt(ctx.int_const("apiKey"))
                ver = SInt(ctx.int_const("version", 0))
                fv = VersionRange(float("inf"), float("-inf")) if first_flex is None else VersionRange(first_flex, float("inf"))
                from kvc.core import SStr
                schema = SRec(MessageSchema, {"type": kind, "apiKey": key, "flexibleVersions": fv, "name": SStr(ctx.str_const("name"))})
                it = make_interp(ctx, reg, inline=inline)
                o = run_body(it, H.get_header_schema_import, [schema, ver])
                flexible = z3.BoolVal(False) if first_flex is None else ver.t >= first_flex
                if o.kind != "return" or not isinstance(o.value, str):
                    path_obligation(res, ctx, f"{res.unit}/{kind}/returns-import-line", z3.BoolVal(False), got=repr(o))
                else:
                    if kind == "request":
                        special = z3.And(ver.t == 0, key.t == 7)
                        cond = {0: special, 2: z3.And(z3.Not(special), flexible), 1: z3.And(z3.Not(special), z3.Not(flexible))}
                    else:
                        cond = {0: z3.Or(key.t == 18, z3.Not(flexible)), 1: z3.And(key.t != 18, flexible)}
                    got = [v for v in cond if o.value == expected_line(kind, v)]
                    path_obligation(res, ctx, f"{res.unit}/{kind}/flexibleVersions={first_flex}/follows-kafka-rule",
                                    cond[got[0]] if got else z3.BoolVal(False), got=o.value.strip())
                collect(res, ctx)
            explore_unit(res, run)
    out.append(common.summarise(res, [common.function_record(H.get_header_schema_import)]))
    return out


def main(tier):
    rep = common.Report("C08", tier, "contracts on the header-selection functions (symbolic execution of the real bodies, "
                        "z3) + ground invariants over all payload classes (AST and live) + index inverse lemma by evaluation")
    try:
        rep.add_units(symbolic_units())
    except ImportError as ex:
        rep.add_ground("C08/codegen-importable", False, repr(ex))
    import importlib
    from kio import index
    npay = 0
    pairs = {}
    for modname, path, api, ver, etype in SF.walk_modules():
        if etype not in ("request", "response"):
            continue
        classes, header_import = SF.ast_classes(path)
        for L in SF.live_classes(modname):
            npay += 1
            pre = f"C08/{api}.v{ver}.{etype}/{L.__name__}"
            want = rule(etype, int(L.__api_key__), int(L.__version__), bool(L.__flexible__))
            hs = L.__header_schema__
            rep.add_ground(f"{pre}/header-follows-kafka-rule",
                           hs.__module__ == f"kio.schema.{etype}_header.v{want}.header" and hs.__name__.lower() == f"{etype}header",
                           f"{hs.__module__}.{hs.__name__} vs rule v{want} for key={L.__api_key__} version={L.__version__} flexible={L.__flexible__}")
            rep.add_ground(f"{pre}/header-import-in-source-agrees", header_import == f"kio.schema.{etype}_header.v{want}.header",
                           f"import {header_import}")
            if L.__type__.name == etype:
                pairs.setdefault((api, ver), {})[etype] = L
    for (api, ver), d in sorted(pairs.items()):
        pre = f"C08/pair/{api}.v{ver}"
        rq, rs = d.get("request"), d.get("response")
        rep.add_ground(f"{pre}/both-exist", rq is not None and rs is not None)
        if rq is None or rs is None:
            continue
        rep.add_ground(f"{pre}/same-api-key", rq.__api_key__ == rs.__api_key__, f"{rq.__api_key__} vs {rs.__api_key__}")
        rep.add_ground(f"{pre}/same-flexibility", rq.__flexible__ == rs.__flexible__)
        try:
            ok1 = index.load_response_from_request(rq) is rs
            ok2 = index.load_request_from_response(rs) is rq
            ok3 = index.load_request_from_response(index.load_response_from_request(rq)) is rq
            ok4 = index.load_response_from_request(index.load_request_from_response(rs)) is rs
            rep.add_ground(f"{pre}/request-to-response", ok1)
            rep.add_ground(f"{pre}/response-to-request", ok2)
            rep.add_ground(f"{pre}/mutually-inverse", ok3 and ok4)
        except Exception as ex:     # noqa: BLE001
            rep.add_ground(f"{pre}/mutually-inverse", False, repr(ex))
    rep.extra.update({"payload_classes": npay, "pairs": len(pairs), "exhaustive": True})
    rep.assumptions.append("codegen.parser.MessageSchema instances are modelled as records with fields type/apiKey/flexibleVersions")
    return rep.finish("./vf check C08 --tier " + tier)


if __name__ == "__main__":
    sys.exit(main(sys.argv[1] if len(sys.argv) > 1 else "quick"))
