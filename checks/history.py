"""Bounded stand-in (NOT proof): history independence of the leaf codecs and of the primitive types
under *equal but distinct* arguments - the classic way a memoisation keyed by == / hash changes results:
0.0 vs -0.0, 1 vs True vs 1.0, 5 vs 5.0 vs Fraction(5) vs Decimal(5).  Every function is called on the
first value and then on the second (both orders); the second result must be what a fresh process gives."""
from __future__ import annotations

import decimal
import fractions
import io
import struct


def aliases(v):
    """values that compare equal to v but are a different object kind / bit pattern"""
    out = []
    if isinstance(v, bool):
        out += [int(v), float(v)]
    elif isinstance(v, int):
        out += [float(v)] if abs(v) < 2 ** 53 else []
        out += [fractions.Fraction(v), decimal.Decimal(v)]
        if v in (0, 1):
            out.append(bool(v))
    elif isinstance(v, float):
        if v == 0:
            out.append(-v)
        if v == int(v) and abs(v) < 2 ** 53:
            out += [int(v), fractions.Fraction(int(v))]
    return out


def outcome(thunk):
    try:
        return ("return", thunk())
    except BaseException as ex:      # noqa: BLE001
        return ("raise", type(ex).__name__)


def writers_history():
    import kio.serial.writers as W
    cases = [("write_float64", [0.0, -0.0, 1.0, 5.0, 1e300]), ("write_boolean", [True, False]),
             ("write_int8", [0, 1, 5, -1]), ("write_int16", [0, 1, 300]), ("write_int32", [0, 1, 5, 2 ** 31 - 1]),
             ("write_int64", [0, 1, 5, 2 ** 40]), ("write_uint8", [0, 1, 200]), ("write_uint16", [0, 1, 65535]),
             ("write_uint32", [0, 1, 2 ** 32 - 1]), ("write_uint64", [0, 1, 2 ** 63]),
             ("write_unsigned_varint", [0, 1, 127, 128, 300]), ("write_unsigned_varlong", [0, 1, 2 ** 40]),
             ("write_signed_varint", [0, 1, -1, 64]), ("write_signed_varlong", [0, 1, -1, 2 ** 40]),
             ("write_compact_array_length", [0, 1, 127]), ("write_legacy_array_length", [0, 1, 5])]
    fails, n = [], 0
    for name, vals in cases:
        fn = getattr(W, name, None)
        if fn is None:
            continue

        def run(x):
            buf = io.BytesIO()
            k, r = outcome(lambda: fn(buf, x))
            return (k, buf.getvalue().hex() if k == "return" else r)
        for v in vals:
            fresh = run(v)                      # first use of v in this process for this function is the reference ...
            for a in aliases(v):
                for first, second in ((a, v), (v, a)):
                    n += 1
                    run(first)
                    got = run(second)
                    want = reference(name, second)
                    if want is not None and got != want and len(fails) < 8:
                        fails.append({"key": f"{name}/history", "function": name, "history": f"{first!r} then {second!r}",
                                      "expected": want, "observed": got})
    return n, fails


def reference(name, v):
    """what the writer must do for v, independent of kio (struct on the value's own kind)"""
    fmt = {"write_float64": ">d", "write_boolean": ">?", "write_int8": ">b", "write_int16": ">h", "write_int32": ">i",
           "write_int64": ">q", "write_uint8": ">B", "write_uint16": ">H", "write_uint32": ">I", "write_uint64": ">Q",
           "write_legacy_array_length": ">i"}.get(name)
    if fmt is None:
        return None
    try:
        return ("return", struct.pack(fmt, v).hex())
    except (struct.error, TypeError):
        return None             # what happens for a value outside the typed domain is not specified


def phantom_history():
    import kio.static.primitive as P
    fails, n = [], 0
    for tname in ("i8", "i16", "i32", "i64", "u8", "u16", "u32", "u64", "uvarint", "uvarlong", "svarint", "svarlong", "f64"):
        T = getattr(P, tname, None)
        if T is None:
            continue
        lo, hi = getattr(T, "__low__", -5), getattr(T, "__high__", 5)
        base = [0, 1, 5, lo, hi] if tname != "f64" else [0.0, 1.0, 5.0, -0.0]
        for v in base:
            for a in aliases(v):
                for first, second in ((a, v), (v, a)):
                    n += 1
                    outcome(lambda: isinstance(first, T))
                    outcome(lambda: T(first))
                    got = outcome(lambda: isinstance(second, T))
                    if tname == "f64":
                        want = isinstance(second, float) and second == second and abs(second) != float("inf")
                    else:
                        want = isinstance(second, int) and lo <= second <= hi
                    if got != ("return", want) and len(fails) < 8:
                        fails.append({"key": f"{tname}/membership-history", "type": tname, "history": f"{first!r} then {second!r}",
                                      "expected": want, "observed": got})
                    k2 = outcome(lambda: T(second))
                    ok2 = (k2[0] == "return" and k2[1] is second) if want else k2 == ("raise", "TypeError")
                    if not ok2 and len(fails) < 8:
                        fails.append({"key": f"{tname}/constructor-history", "type": tname, "history": f"{first!r} then {second!r}",
                                      "expected": "returns the argument" if want else "TypeError", "observed": repr(k2)[:100]})
    return n, fails
