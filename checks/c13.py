"""C13 - every entity is self-describing and its description is coherent: the representation
invariant WF(T), the precondition of every class-level contract of C01-C10, discharged over its
whole finite domain (every class, every field), with each fact read both from the module AST and
from the live class."""
from __future__ import annotations

import dataclasses
import sys
import types
import typing
import uuid

import boot  # noqa: F401
from checks import common, schema_facts as SF

NULLABLE_KAFKA = ("string", "bytes", "records", "uuid", "datetime_i64")


def type_table():
    import kio.static.primitive as P
    from kio.schema.errors import ErrorCode
    return {"int8": P.i8, "int16": P.i16, "int32": P.i32, "int64": P.i64, "uint8": P.u8, "uint16": P.u16,
            "uint32": P.u32, "uint64": P.u64, "float64": P.f64, "string": str, "bytes": bytes, "records": P.Records,
            "uuid": uuid.UUID, "bool": bool, "error_code": ErrorCode, "timedelta_i32": P.i32Timedelta,
            "timedelta_i64": P.i64Timedelta, "datetime_i64": P.TZAware}


def strip_optional(tp):
    if typing.get_origin(tp) in (types.UnionType, typing.Union):
        args = typing.get_args(tp)
        non = [a for a in args if a is not type(None)]
        return (non[0] if len(non) == 1 else tp), (type(None) in args), len(args)
    return tp, False, 1


def run_unit(spec):
    modname, path, api, ver, etype = spec
    from kio.serial import entity_reader, entity_writer
    from kio.serial import _introspect as I
    from kio.serial._implicit_defaults import get_tagged_field_default
    from spec import schema_spec
    table = type_table()
    facts = []

    def fact(name, ok, detail=""):
        facts.append((name, bool(ok), str(detail)[:300]))
    classes, _ = SF.ast_classes(path)
    astc = {c["name"]: c for c in classes}
    for T in SF.live_classes(modname):
        pre = f"C13/{api}.v{ver}.{etype}/{T.__name__}"
        ac = astc.get(T.__name__)
        fact(f"{pre}/declared-in-source", ac is not None)
        try:
            hints = typing.get_type_hints(T)
        except Exception as ex:     # noqa: BLE001
            fact(f"{pre}/annotations-resolve", False, repr(ex))
            continue
        tags = []
        afields = {f["name"]: f for f in (ac["fields"] if ac else [])}
        fact(f"{pre}/fields-ast-equals-live", [f.name for f in dataclasses.fields(T)] == list(afields),
             f"{[f.name for f in dataclasses.fields(T)]} vs {list(afields)}")
        for f in dataclasses.fields(T):
            fp = f"{pre}.{f.name}"
            tp = hints[f.name]
            inner, nullable, nargs = strip_optional(tp)
            fact(f"{fp}/union-only-with-None", nargs <= 2 and (nargs == 1 or nullable), tp)
            is_array = typing.get_origin(inner) is tuple
            item = inner
            item_nullable = False
            if is_array:
                a = typing.get_args(inner)
                fact(f"{fp}/array-is-homogeneous-tuple", len(a) == 2 and a[1] is Ellipsis, a)
                item, item_nullable, _ = strip_optional(a[0]) if a else (None, False, 1)
                fact(f"{fp}/array-items-nullable-only-with-wire-null",
                     not item_nullable or f.metadata.get("kafka_type") in NULLABLE_KAFKA, a)
            else:
                fact(f"{fp}/not-a-mutable-container", typing.get_origin(inner) not in (list, dict, set), tp)
            is_entity = dataclasses.is_dataclass(item)
            kt = f.metadata.get("kafka_type", None)
            fact(f"{fp}/kafka_type-iff-primitive", (kt is not None) == (not is_entity), f"kafka_type={kt!r} entity={is_entity}")
            af = afields.get(f.name)
            if af is not None:
                fact(f"{fp}/metadata-ast-equals-live", dict(f.metadata) == af["metadata"], f"{dict(f.metadata)} vs {af['metadata']}")
                fact(f"{fp}/only-kafka_type-and-tag-in-metadata", set(f.metadata) <= {"kafka_type", "tag"}, dict(f.metadata))
            if kt is not None:
                fact(f"{fp}/kafka_type-is-known-primitive", isinstance(kt, str) and kt in table, kt)
                if isinstance(kt, str) and kt in table:
                    want = table[kt]
                    # exact match: the nearest primitive in the annotation's MRO is the one the Kafka type names
                    # (a subclass relation is not enough: i32 is a subclass of i64 but has another wire width)
                    prims = set(table.values())
                    nearest = next((c for c in getattr(item, "__mro__", ()) if c in prims), None)
                    fact(f"{fp}/kafka_type-matches-python-type", isinstance(item, type) and nearest is want,
                         f"{kt} -> {want.__name__}, declared {item} (nearest primitive {getattr(nearest, '__name__', None)})")
                    if nullable and not is_array:
                        fact(f"{fp}/nullable-only-with-wire-null", kt in NULLABLE_KAFKA, kt)
                    if kt == "uuid":
                        fact(f"{fp}/uuid-declared-nullable", nullable or is_array, tp)
            if is_entity:
                fact(f"{fp}/nested-class-in-same-module", item.__module__ == T.__module__, item.__module__)
                fact(f"{fp}/nested-class-same-version-and-flexibility",
                     item.__version__ == T.__version__ and item.__flexible__ == T.__flexible__)
            # defaults inhabit the declared type
            if f.default is not dataclasses.MISSING:
                d = f.default
                if d is None:
                    ok = nullable
                elif is_array:
                    ok = isinstance(d, tuple) and all(isinstance(x, item) for x in d)
                else:
                    ok = isinstance(d, item)
                fact(f"{fp}/default-inhabits-type", ok, f"{d!r} : {tp}")
            fact(f"{fp}/no-default_factory", f.default_factory is dataclasses.MISSING)
            # tags
            if "tag" in f.metadata:
                tag = f.metadata["tag"]
                fact(f"{fp}/tag-is-nonnegative-int", isinstance(tag, int) and not isinstance(tag, bool) and 0 <= tag < 2 ** 31, tag)
                fact(f"{fp}/tag-only-in-flexible-version", bool(T.__flexible__))
                tags.append(tag)
                try:
                    got = get_tagged_field_default(f)
                    fs = [x for x in schema_spec.field_plan(T) if x.name == f.name][0]
                    fact(f"{fp}/tagged-default-resolvable-and-as-specified", got == schema_spec.default_of(fs),
                         f"{got!r} vs {schema_spec.default_of(fs)!r}")
                except Exception as ex:   # noqa: BLE001
                    fact(f"{fp}/tagged-default-resolvable-and-as-specified", False, repr(ex))
            # the introspection helpers agree with the independent reading
            try:
                # kio's is_optional: nullability of the value, or of the items for an array field
                want_opt = item_nullable if is_array and not nullable else nullable
                fact(f"{fp}/is_optional-agrees", I.is_optional(f) == want_opt, f"{I.is_optional(f)} vs {want_opt}")
                fc = I.classify_field(f)
                fc_item = strip_optional(fc.type_)[0]
                fact(f"{fp}/classify_field-agrees", (fc.is_array, dataclasses.is_dataclass(fc_item), fc_item is item)
                     == (is_array, is_entity, True), f"{fc}")
                fact(f"{fp}/get_field_tag-agrees", I.get_field_tag(f) == f.metadata.get("tag"))
            except Exception as ex:       # noqa: BLE001
                fact(f"{fp}/introspection-helpers", False, repr(ex))
        fact(f"{pre}/tags-unique", len(tags) == len(set(tags)), tags)
        for nullable_flag in (False, True):
            try:
                entity_reader(T, nullable_flag)
                entity_writer(T, nullable_flag)
                fact(f"{pre}/reader-and-writer-derivable/nullable={nullable_flag}", True)
            except Exception as ex:       # noqa: BLE001
                fact(f"{pre}/reader-and-writer-derivable/nullable={nullable_flag}", False, repr(ex))
        # array items must have a non-empty encoding (termination variant of array loops, C10)
        from spec import kafka
        for fs in schema_spec.field_plan(T):
            if fs.desc[0] in ("carr", "larr"):
                fact(f"{pre}.{fs.name}/array-item-encoding-nonempty", kafka.min_len(fs.desc[1]) >= 1, fs.desc[1])
    return [{"unit": f"C13/{modname}", "ground": facts, "obligations": [], "undecided": [], "paths": 0, "time": 0, "functions": []}]


def main(tier):
    rep = common.Report("C13", tier, "representation invariant WF(T) stated as a contract over the declared schema and "
                        "discharged by evaluation on every class and field (AST and live object must agree); exhaustive")
    mods = SF.walk_modules()
    us = common.run_units("checks.c13", mods)
    nfields = 0
    for u in us:
        if u.get("crash"):
            rep.add_units([u])
            continue
        for name, ok, detail in u.get("ground", []):
            rep.add_ground(name, ok, detail)
    # acyclic nesting graph
    from checks import l2
    from spec import schema_spec
    graph = {}
    ents = l2.all_entities()
    for T in ents:
        graph[T] = [fs.desc[1] if fs.desc[0] in ("ent", "nent") else fs.desc[1][1] for fs in schema_spec.field_plan(T)
                    if fs.desc[0] in ("ent", "nent") or (fs.desc[0] in ("carr", "larr") and fs.desc[1][0] == "ent")]
        nfields += len(schema_spec.field_plan(T))
    state = {}

    def acyclic(n):
        if state.get(n) == 1:
            return False
        if state.get(n) == 2:
            return True
        state[n] = 1
        ok = all(acyclic(m) for m in graph.get(n, []))
        state[n] = 2
        return ok
    rep.add_ground("C13/class-nesting-graph-acyclic", all(acyclic(T) for T in ents))
    rep.extra.update({"classes": len(ents), "fields": nfields, "modules": len(mods), "exhaustive": True,
                      "samples": [g for g in rep.ground[:4]]})
    return rep.finish("./vf check C13 --tier " + tier)


if __name__ == "__main__":
    sys.exit(main(sys.argv[1] if len(sys.argv) > 1 else "quick"))
