"""Bounded stand-in (NOT proof) for the time conversions whose bodies compute through floats.

The same contract as in contracts/serial.py is checked at run time on the real function over
an enumerated grid with a stated bound: every power-of-two neighbourhood (+-2) up to 2^63, the
type limits, every millisecond of [0, 5000] and of a window around +-2^53, and VERIF_SEED-driven
random values. A native failing input is a true violation.
"""
from __future__ import annotations

import datetime
import io
import os
import random

EPOCH = datetime.datetime(1970, 1, 1, tzinfo=datetime.timezone.utc)
TS_MAX_MS = 253402300799999


def grid(lo, hi, tier):
    vals = set()
    for k in range(0, 64):
        for d in (-2, -1, 0, 1, 2):
            for s in (1, -1):
                vals.add(s * (2 ** k) + d)
    vals.update(range(0, 5001 if tier == "quick" else 20001))
    # binade boundaries of the value in SECONDS (where the spacing of doubles changes): 2^k s + a few ms
    for k in range(0, 44):
        for d in range(-3, 40):
            vals.add(s * 0 + (2 ** k) * 1000 + d)
            vals.add(-((2 ** k) * 1000 + d))
    for c in (2 ** 53, -(2 ** 53), 10 ** 15, 253402300799999, 2 ** 31, -(2 ** 31)):
        vals.update(range(c - 50, c + 51))
    vals.update((lo, lo + 1, hi - 1, hi))
    rnd = random.Random(int(os.environ.get("VERIF_SEED", "0") or 0))
    for _ in range(2000 if tier == "quick" else 50000):
        vals.add(rnd.randint(lo, hi))
        vals.add(rnd.randint(max(lo, -10 ** 13), min(hi, 10 ** 13)))
    return sorted(v for v in vals if lo <= v <= hi)


def be(w, v):
    return int(v).to_bytes(w, "big", signed=True)


def td_range(w):
    if w == 4:
        return -(2 ** 31), 2 ** 31 - 1
    one = datetime.timedelta(milliseconds=1)
    lo = -((-datetime.timedelta.min) // one)
    hi = (datetime.timedelta.max - datetime.timedelta(days=1)) // one
    return max(lo, -(2 ** 63)), min(hi, 2 ** 63 - 1)


def outcome(thunk):
    try:
        return ("return", thunk())
    except BaseException as ex:      # noqa: BLE001
        return ("raise", type(ex).__name__)


def check_function(name, tier):
    """returns (bound description, evaluations, failures[list of dict])"""
    import kio.serial.readers as R
    import kio.serial.writers as W
    from kio.serial.errors import OutOfBoundValue
    fails = []
    n = 0

    def fail(key, inp, expected, observed, wclass=None):
        if len(fails) < 8:
            fails.append({"key": key, "function": name, "input": repr(inp), "expected": expected,
                          "observed": observed, "witness_class": wclass})

    if name in ("write_timedelta_i32", "write_timedelta_i64"):
        w = 4 if name.endswith("32") else 8
        lo, hi = td_range(w)
        fn = getattr(W, name)
        for ms in grid(lo, hi, tier):
            n += 1
            d = datetime.timedelta(milliseconds=ms)
            buf = io.BytesIO()
            k, r = outcome(lambda: fn(buf, d))
            got = buf.getvalue().hex() if k == "return" else r
            if got != be(w, ms).hex():
                fail("whole-ms-duration-encodes-exactly", d, be(w, ms).hex(), got,
                     "duration beyond 2^53 ms" if abs(ms) > 2 ** 53 else "duration")
        bound = f"{n} whole-millisecond durations in [{lo}, {hi}] ms (power-of-two neighbourhoods, limits, windows, seeded random)"
    elif name in ("read_timedelta_i32", "read_timedelta_i64"):
        w = 4 if name.endswith("32") else 8
        lo, hi = td_range(w)
        fn = getattr(R, name)
        for ms in grid(-(2 ** (8 * w - 1)), 2 ** (8 * w - 1) - 1, tier):
            n += 1
            k, r = outcome(lambda: fn(io.BytesIO(be(w, ms))))
            if lo <= ms <= hi:
                if k != "return" or r != datetime.timedelta(milliseconds=ms):
                    fail("reads-duration", ms, repr(datetime.timedelta(milliseconds=ms)), repr(r))
            elif not (k == "raise" and r in ("OverflowError",)) and not (k == "return" and r == datetime.timedelta(milliseconds=ms)):
                fail("out-of-range-duration", ms, "OverflowError", repr(r))
        bound = f"{n} wire values over the full int{8 * w} range"
    elif name in ("tz_aware_from_i64", "read_datetime_i64", "read_nullable_datetime_i64"):
        fn = getattr(R, name)
        for ms in grid(-(2 ** 63), 2 ** 63 - 1, tier):
            n += 1
            if name == "tz_aware_from_i64":
                k, r = outcome(lambda: fn(ms))
            else:
                k, r = outcome(lambda: fn(io.BytesIO(be(8, ms))))
            if name == "read_nullable_datetime_i64" and ms == -1:
                if not (k == "return" and r is None):
                    fail("null-timestamp", ms, "None", repr(r))
            elif 0 <= ms <= TS_MAX_MS:
                want = EPOCH + datetime.timedelta(milliseconds=ms)
                if k != "return" or r != want or r.tzinfo is None:
                    fail("reads-millisecond-timestamp", ms, repr(want), repr(r),
                         "timestamp with non-zero milliseconds" if ms % 1000 else "timestamp")
            elif ms < 0:
                if not (k == "raise" and r in ("OutOfBoundValue", "OverflowError", "ValueError")):
                    fail("negative-timestamp", ms, "OutOfBoundValue", repr(r))
            elif not (k == "raise" and r in ("OverflowError", "ValueError", "OutOfBoundValue")):
                fail("timestamp-beyond-year-9999", ms, "OverflowError/ValueError", repr(r))
        bound = f"{n} wire values over the full int64 range"
    elif name in ("write_datetime_i64", "write_nullable_datetime_i64"):
        fn = getattr(W, name)
        tzs = (datetime.timezone.utc, datetime.timezone(datetime.timedelta(hours=5, minutes=30)),
               datetime.timezone(datetime.timedelta(hours=-11)))
        for i, ms in enumerate(grid(0, TS_MAX_MS, tier)):
            n += 1
            t = EPOCH + datetime.timedelta(milliseconds=ms)
            try:
                t = t.astimezone(tzs[i % 3])
            except OverflowError:
                pass
            buf = io.BytesIO()
            k, r = outcome(lambda: fn(buf, t))
            got = buf.getvalue().hex() if k == "return" else r
            if got != be(8, ms).hex():
                fail("whole-ms-timestamp-encodes-exactly", t, be(8, ms).hex(), got)
        if name == "write_nullable_datetime_i64":
            n += 1
            buf = io.BytesIO()
            fn(buf, None)
            if buf.getvalue() != be(8, -1):
                fail("null-timestamp", None, be(8, -1).hex(), buf.getvalue().hex())
        bound = f"{n} whole-millisecond aware timestamps in [0, {TS_MAX_MS}] ms, three UTC offsets"
    else:
        raise KeyError(name)
    return bound, n, fails
