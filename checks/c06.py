"""C06 - see checks/l2props.py (CONFIG["C06"]) and DESIGN.md section 4.

Besides the symbolic truncation clauses (all classes, all cuts) a native sweep runs as a labelled bounded
stand-in: every strict prefix of the encoding of one populated instance of every class must raise
BufferUnderflow. It proves nothing; it is the witness finder for code the engine cannot model
(then the symbolic unit is undecided and only this sweep can turn that into a replayable violation)."""
import sys

import boot  # noqa: F401
from checks import common, l2props


def prefix_unit(keys):
    import io
    from checks import c15, l2
    from kio.serial import entity_reader, entity_writer
    from kio.serial.errors import BufferUnderflow
    n, fails = 0, []
    for key in keys:
        T = l2.resolve(key)
        try:
            x = c15.sample_instance(T, True)
            buf = io.BytesIO()
            entity_writer(T)(buf, x)
            data = buf.getvalue()
        except Exception:        # noqa: BLE001
            continue            # not encodable: other properties' business
        rd = entity_reader(T)
        for cut in range(len(data)):
            n += 1
            try:
                r = rd(io.BytesIO(data[:cut]))
                obs = f"returned {r!r}"[:200]
            except BufferUnderflow:
                continue
            except BaseException as ex:      # noqa: BLE001
                obs = f"raised {type(ex).__name__}: {ex}"[:200]
            if len(fails) < 3:
                fails.append({"key": f"strict-prefix-raises-BufferUnderflow/{key}", "input": f"{key}: first {cut} of {len(data)} bytes {data[:cut].hex()[:160]}",
                              "expected": "BufferUnderflow", "observed": obs})
    return [{"unit": f"bounded/prefix-sweep/{keys[0]}..", "obligations": [], "undecided": [], "paths": 0, "time": 0.0, "functions": [],
             "bounded": {"n": n, "failures": fails}}]


def run_unit(spec):
    return prefix_unit(spec)


def extra(rep):
    from checks import l2
    keys = [l2.class_key(T) for T in l2.all_entities()]
    chunks = [keys[i:i + 40] for i in range(0, len(keys), 40)]
    n, fails = 0, []
    for u in common.run_units("checks.c06", chunks):
        b = u.get("bounded") or {}
        n += b.get("n", 0)
        fails += b.get("failures", [])
        if u.get("crash"):
            fails.append({"key": "prefix-sweep-crashed", "input": u["unit"], "expected": "runs", "observed": u["crash"][-300:]})
    rep.add_bounded("bounded/every-strict-prefix-of-a-populated-instance-raises-BufferUnderflow",
                    f"{len(keys)} classes, one populated instance each (arrays of two items, every nullable set, every tagged field "
                    f"non-default), every cut position: {n} native decodes", n, fails[:40])


def main(tier):
    return l2props.main("C06", tier, extra=extra)


if __name__ == "__main__":
    sys.exit(main(sys.argv[1] if len(sys.argv) > 1 else "quick"))
