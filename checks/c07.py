"""C07 - messages are self-delimiting on a sequential stream.

(a) interface discipline of every function under contract (checks/frames.py): the sink only
    through write(bytes), the source only through read(int) - so bytes and values do not depend on
    the kind of stream (assumed contract of IO[bytes] / asyncio.StreamWriter.write);
(b) position independence is part of every contract (arbitrary bytes before, arbitrary tail after);
(c) sequencing lemma over the contracts: reading R1; R2 from A1(x1) ++ A2(x2) ++ tail returns
    (x1, x2) and leaves tail - instantiated for (header, payload) of every payload class, and for
    two arbitrary messages back to back (induction step for any finite sequence)."""
from __future__ import annotations

import sys

import boot  # noqa: F401
import z3

from checks import common, frames


def sequencing_unit(key):
    from checks import l2
    from contracts import entity as CE
    from contracts import serial as CS
    from kio.serial import entity_reader
    from kvc.core import Enc, Raw, equalise, sym_eq, tobool
    from kvc.models import Source
    from kvc.verify import Result, collect, explore_unit, make_interp, path_obligation
    from spec import schema_spec
    T = l2.resolve(key)
    H = T.__header_schema__
    reg = CS.Registry(extra=CE.extra_lookup)
    rh, rt = entity_reader(H), entity_reader(T)
    ch, ct = reg.lookup(rh), reg.lookup(rt)
    short = key.replace("kio.schema.", "")
    res = Result(f"C07/sequencing/{short}")

    def run(ctx):
        h1, x1 = schema_spec.generic_entity(ctx, H, "h1"), schema_spec.generic_entity(ctx, T, "x1")
        h2, x2 = schema_spec.generic_entity(ctx, H, "h2"), schema_spec.generic_entity(ctx, T, "x2")
        lead, tail = ctx.bytes_const("lead"), ctx.bytes_const("tail")
        src = Source(ctx, [Raw(lead), Enc(("ent", H), h1), Enc(("ent", T), x1), Enc(("ent", H), h2), Enc(("ent", T), x2), Raw(tail)])
        src._take(src.segs[0].length())        # whatever preceded the first message has been consumed
        it = make_interp(ctx, reg)
        got = [ch.read(it, src), ct.read(it, src), ch.read(it, src), ct.read(it, src)]
        for name, g, want in zip(("header1", "payload1", "header2", "payload2"), got, (h1, x1, h2, x2)):
            path_obligation(res, ctx, f"{res.unit}/{name}", tobool(sym_eq(g, want, ctx)), expected=name)
        path_obligation(res, ctx, f"{res.unit}/leaves-exactly-the-tail", tobool(equalise(ctx, src.rest(), [Raw(tail)])))
        collect(res, ctx)
    explore_unit(res, run)
    return [common.summarise(res, [])]


def run_unit(spec):
    return sequencing_unit(spec)


def native_stream_kinds(rep, tier):
    """bounded, NOT proof: the same bytes/values through a write-only sink, a read-only source and BytesIO"""
    import io
    from checks import c15, l2
    from kio.serial import entity_reader, entity_writer

    class WriteOnly:
        def __init__(self):
            self.chunks = []

        def write(self, b):
            self.chunks.append(bytes(b))

    class ReadOnly:
        def __init__(self, data):
            self._d, self._p = data, 0

        def read(self, n=-1):
            n = len(self._d) - self._p if n is None or n < 0 else n
            out = self._d[self._p:self._p + n]
            self._p += len(out)
            return out
    fails, n = [], 0
    for T in l2.all_entities()[:: (20 if tier == "quick" else 3)]:
        x = c15.sample_instance(T, True)
        a, b = io.BytesIO(), WriteOnly()
        try:
            entity_writer(T)(a, x)
            entity_writer(T)(b, x)
            data = b"".join(b.chunks)
            back = entity_reader(T)(ReadOnly(data + b"\x99"))
            ok = data == a.getvalue() and back == x
        except Exception as ex:       # noqa: BLE001
            ok, data = False, repr(ex).encode()
        n += 1
        if not ok:
            fails.append({"key": "stream-kind-dependence", "input": repr(T), "expected": a.getvalue().hex()[:80], "observed": data.hex()[:80]})
    rep.add_bounded("bounded/stream-kinds", f"{n} classes, one populated instance each, write-only sink / read-only source / BytesIO", n, fails)


def main(tier):
    rep = common.Report("C07", tier, "contract-based: interface-discipline obligations from symbolic execution of every function "
                        "under contract + sequencing lemma over the class contracts for every (header, payload) pair; z3")
    us = common.run_units("checks.frames", frames.units(False))
    rep.add_units(us)
    from checks import l2
    payload = [l2.class_key(T) for T in l2.all_entities() if T.__type__.name in ("request", "response")]
    rep.add_units(common.run_units("checks.c07", payload))
    native_stream_kinds(rep, tier)
    rep.extra["payload_classes"] = len(payload)
    rep.assumptions += [
        "IO[bytes].write(b) appends b, read(n) returns the next min(n, remaining) bytes; asyncio.StreamWriter.write appends (assumed)",
        "the per-class match clauses used by the sequencing lemma are discharged by C01/C03 (cone), not again here",
    ]
    return rep.finish("./vf check C07 --tier " + tier)


if __name__ == "__main__":
    sys.exit(main(sys.argv[1] if len(sys.argv) > 1 else "quick"))
