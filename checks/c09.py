"""C09 - the dynamic index resolves every known entity and nothing else.

Contracts on kio.index lookups executed symbolically with the REAL maps as concrete data and
api_key: int, name: str, version: int symbolic, entity_type over all five enum members:
key in map => exactly the map's entry; otherwise UnknownAPIKey / UnknownEntity and nothing else.
Ground: every one of the index entries resolves to the class carrying exactly its coordinates;
every schema module on disk is in the index; api_key_map is injective and onto the APIs."""
from __future__ import annotations

import sys

import boot  # noqa: F401
import z3

from checks import common, schema_facts as SF


def symbolic_units(which):
    from contracts import serial as CS
    from kio import index
    from kio.schema.index import api_key_map, schema_name_map
    from kio.static.constants import EntityType
    from kvc.core import SInt, SStr, tobool
    from kvc.verify import Result, collect, explore_unit, make_interp, path_obligation, run_body
    reg = CS.Registry()
    out = []

    def inline(fn):
        return getattr(fn, "__module__", "") == "kio.index"
    # ---- _name_from_key over arbitrary ints
    res = Result("C09/index/_name_from_key")

    def run(ctx):
        k = SInt(ctx.int_const("api_key"))
        it = make_interp(ctx, reg, inline=inline)
        o = run_body(it, index._name_from_key, [k])
        in_map = z3.Or(*[k.t == kk for kk in api_key_map])
        if o.kind == "return":
            hits = [kk for kk, n in api_key_map.items() if n == o.value]
            path_obligation(res, ctx, f"{res.unit}/returns-the-entry", z3.And(in_map, z3.Or(*[k.t == kk for kk in hits])) if hits else z3.BoolVal(False),
                            got=repr(o.value))
        else:
            path_obligation(res, ctx, f"{res.unit}/unknown-key-raises-UnknownAPIKey",
                            z3.And(z3.Not(in_map), z3.BoolVal(o.exc is index.UnknownAPIKey)), got=repr(o))
        collect(res, ctx)
    if which == "name_from_key":
        explore_unit(res, run)
        out.append(common.summarise(res, [common.function_record(index._name_from_key)]))
    # ---- _get_entity_path over arbitrary (name, version, entity type)
    res2 = Result("C09/index/_get_entity_path")
    for et in [e for e in EntityType if which == "entity_path:" + e.name]:
        def run2(ctx, et=et):
            name = SStr(ctx.str_const("name"))
            ver = SInt(ctx.int_const("version"))
            it = make_interp(ctx, reg, inline=inline)
            o = run_body(it, index._get_entity_path, [name, ver, et])
            entries = [(n, v, p) for n, vm in schema_name_map.items() for v, tm in vm.items() for t, p in tm.items() if t is et]
            known = z3.Or(*[z3.And(name.t == z3.StringVal(n), ver.t == v) for n, v, _ in entries]) if entries else z3.BoolVal(False)
            if o.kind == "return":
                hit = [z3.And(name.t == z3.StringVal(n), ver.t == v) for n, v, p in entries if p == o.value]
                path_obligation(res2, ctx, f"{res2.unit}/{et.name}/returns-the-entry", z3.Or(*hit) if hit else z3.BoolVal(False),
                                got=repr(o.value))
            else:
                path_obligation(res2, ctx, f"{res2.unit}/{et.name}/unknown-raises-UnknownEntity",
                                z3.And(z3.Not(known), z3.BoolVal(o.exc is index.UnknownEntity)), got=repr(o))
            collect(res2, ctx)
        explore_unit(res2, run2)
    if which.startswith("entity_path:"):
        out.append(common.summarise(res2, [common.function_record(index._get_entity_path)]))
    # ---- the public loaders: compositions; executed with symbolic key/version
    res3 = Result("C09/index/load_request_schema+load_response_schema")
    for fn, et in [p_ for p_ in ((index.load_request_schema, EntityType.request), (index.load_response_schema, EntityType.response))
                   if which == "load:" + p_[0].__name__]:
        def run3(ctx, fn=fn, et=et):
            k = SInt(ctx.int_const("api_key"))
            ver = SInt(ctx.int_const("version"))
            it = make_interp(ctx, reg, inline=inline)
            o = run_body(it, fn, [k, ver])
            entries = []
            for kk, n in api_key_map.items():
                for v, tm in schema_name_map.get(n, {}).items():
                    if et in tm:
                        entries.append((kk, v, tm[et]))
            known = z3.Or(*[z3.And(k.t == kk, ver.t == v) for kk, v, _ in entries])
            if o.kind == "return":
                cls = o.value
                ok = [z3.And(k.t == kk, ver.t == v) for kk, v, p in entries
                      if isinstance(cls, type) and p == f"{cls.__module__}:{cls.__qualname__}"]
                path_obligation(res3, ctx, f"{res3.unit}/{fn.__name__}/returns-the-indexed-class", z3.Or(*ok) if ok else z3.BoolVal(False),
                                got=repr(cls))
                if isinstance(cls, type):
                    path_obligation(res3, ctx, f"{res3.unit}/{fn.__name__}/class-carries-the-coordinates",
                                    z3.And(k.t == int(cls.__api_key__), ver.t == int(cls.__version__),
                                           z3.BoolVal(cls.__type__ is et)), got=repr(cls))
            else:
                key_known = z3.Or(*[k.t == kk for kk in api_key_map])
                path_obligation(res3, ctx, f"{res3.unit}/{fn.__name__}/only-documented-errors",
                                z3.And(z3.Not(known), z3.BoolVal(o.exc in (index.UnknownAPIKey, index.UnknownEntity)),
                                       z3.BoolVal(o.exc is index.UnknownAPIKey) == z3.Not(key_known)), got=repr(o))
            collect(res3, ctx)
        explore_unit(res3, run3)
    if which.startswith("load:"):
        out.append(common.summarise(res3, [common.function_record(f) for f in (index.load_request_schema, index.load_response_schema,
                                                                                index.load_entity_schema, index._resolve)]))
    return out


def main(tier):
    rep = common.Report("C09", tier, "contracts on the kio.index lookups (real bodies executed symbolically over arbitrary "
                        "keys/names/versions with the real maps as data; z3) + ground invariants over all index entries")
    from kio.static.constants import EntityType as _ET
    rep.add_units(common.run_units("checks.c09", ["name_from_key", "load:load_request_schema", "load:load_response_schema"]
                                   + ["entity_path:" + e.name for e in _ET]))
    from kio import index
    from kio.schema.index import api_key_map, schema_name_map
    from kio.static.constants import EntityType
    import types
    n_entries = 0
    indexed_modules = set()
    for name, vm in schema_name_map.items():
        for ver, tm in vm.items():
            for et, path in tm.items():
                n_entries += 1
                pre = f"C09/entry/{name}.v{ver}.{et.name}"
                try:
                    cls = index.load_entity_schema(name, ver, et)
                    mod = index.load_entity_module(name, ver, et)
                except Exception as ex:       # noqa: BLE001
                    rep.add_ground(f"{pre}/resolves", False, repr(ex))
                    continue
                indexed_modules.add(mod.__name__)
                rep.add_ground(f"{pre}/resolves-to-the-entry", f"{cls.__module__}:{cls.__qualname__}" == path and mod.__name__ == path.split(":")[0], path)
                rep.add_ground(f"{pre}/coordinates",
                               cls.__module__ == f"kio.schema.{name}.v{ver}.{et.name}" and cls.__type__ is et and int(cls.__version__) == ver,
                               f"{cls.__module__} type={cls.__type__} version={cls.__version__}")
                if et in (EntityType.request, EntityType.response):
                    k = int(cls.__api_key__)
                    rep.add_ground(f"{pre}/api-key-maps-to-name", api_key_map.get(k) == name, f"key {k} -> {api_key_map.get(k)}")
                    try:
                        via = index.load_payload_module(k, ver, et)
                        rep.add_ground(f"{pre}/load_payload_module", via is mod)
                    except Exception as ex:   # noqa: BLE001
                        rep.add_ground(f"{pre}/load_payload_module", False, repr(ex))
    # the key-based loaders over every (key, version), in two different orders (a lookup must not depend on history)
    expected = {}
    for name, vm in schema_name_map.items():
        for ver, tm in vm.items():
            for et, path in tm.items():
                if et in (EntityType.request, EntityType.response):
                    key = [k for k, n in api_key_map.items() if n == name]
                    if key:
                        expected[(key[0], ver, et)] = path
    for label, order in (("ascending", sorted(expected, key=lambda t: (t[0], t[1], t[2].name))),
                         ("descending", sorted(expected, key=lambda t: (t[0], t[1], t[2].name), reverse=True))):
        for (k, ver, et) in order:
            fn = index.load_request_schema if et is EntityType.request else index.load_response_schema
            try:
                cls = fn(k, ver)
                ok = f"{cls.__module__}:{cls.__qualname__}" == expected[(k, ver, et)]
                detail = f"{cls.__module__}:{cls.__qualname__}"
            except Exception as ex:       # noqa: BLE001
                ok, detail = False, repr(ex)
            rep.add_ground(f"C09/loader/{label}/{fn.__name__}({k},{ver})", ok, detail)
        for (k, ver, et) in order[:: max(1, len(order) // 60)]:
            for bad in (ver + 1000, -1 - ver):
                fn = index.load_request_schema if et is EntityType.request else index.load_response_schema
                try:
                    cls = fn(k, bad)
                    rep.add_ground(f"C09/loader/{label}/{fn.__name__}({k},{bad})-unknown", False, f"returned {cls}")
                except index.UnknownEntity:
                    rep.add_ground(f"C09/loader/{label}/{fn.__name__}({k},{bad})-unknown", True)
                except Exception as ex:       # noqa: BLE001
                    rep.add_ground(f"C09/loader/{label}/{fn.__name__}({k},{bad})-unknown", False, repr(ex))
    disk = {m[0] for m in SF.walk_modules()}
    for m in sorted(disk - indexed_modules):
        rep.add_ground(f"C09/reachable/{m}", False, "schema module on disk is not reachable through the index")
    for m in sorted(indexed_modules - disk):
        rep.add_ground(f"C09/stale/{m}", False, "index entry without a module on disk")
    rep.add_ground("C09/every-module-on-disk-is-indexed", disk == indexed_modules, f"{len(disk)} on disk, {len(indexed_modules)} indexed")
    names = list(api_key_map.values())
    rep.add_ground("C09/api_key_map-injective", len(set(names)) == len(names))
    payload_apis = {m[2] for m in SF.walk_modules() if m[4] in ("request", "response")}
    rep.add_ground("C09/api_key_map-onto-the-payload-apis", set(names) == payload_apis, sorted(set(names) ^ payload_apis))
    # near misses (ground instances of the symbolic contract, kept as a cross-check of the engine)
    for k in list(api_key_map) + [-1, max(api_key_map) + 1, 10 ** 9]:
        for dv in (-1, 10 ** 6):
            try:
                index.load_request_schema(k, dv)
                rep.add_ground(f"C09/near-miss/{k}/{dv}", False, "returned a class")
            except (index.UnknownAPIKey, index.UnknownEntity):
                rep.add_ground(f"C09/near-miss/{k}/{dv}", True)
            except Exception as ex:       # noqa: BLE001
                rep.add_ground(f"C09/near-miss/{k}/{dv}", False, repr(ex))
    rep.extra.update({"index_entries": n_entries, "api_keys": len(api_key_map), "exhaustive": True})
    rep.assumptions += ["typed domain: api keys and versions are ints, names are strs, entity types are EntityType members",
                        "pkgutil.resolve_name is trusted (called natively on the concrete path string)"]
    return rep.finish("./vf check C09 --tier " + tier)


def run_unit(spec):
    return symbolic_units(spec)


if __name__ == "__main__":
    sys.exit(main(sys.argv[1] if len(sys.argv) > 1 else "quick"))
