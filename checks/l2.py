"""Level 2: per-class obligations generated from the REAL closures entity_writer(T) /
entity_reader(T) (captured plans concrete, entity value / input bytes symbolic).  Callees are
used through their contracts only (level 1 and the contracts of the nested classes)."""
from __future__ import annotations

import dataclasses
import importlib
import pkgutil

import boot  # noqa: F401
from checks import common


def all_entities():
    """every dataclass defined in a module below kio.schema (independent walk of the package)"""
    import kio.schema
    out = []
    for m in pkgutil.walk_packages(kio.schema.__path__, "kio.schema."):
        if m.ispkg or m.name.count(".") < 4:
            continue
        mod = importlib.import_module(m.name)
        for name, v in vars(mod).items():
            if isinstance(v, type) and dataclasses.is_dataclass(v) and v.__module__ == mod.__name__:
                out.append(v)
    out.sort(key=lambda c: (c.__module__, c.__qualname__))
    return out


def class_key(T):
    return f"{T.__module__}:{T.__qualname__}"


def resolve(key):
    m, q = key.split(":")
    return getattr(importlib.import_module(m), q)


def run_class(key, clauses):
    """clauses: subset of {'write', 'match', 'trunc', 'general'}; returns summary dicts"""
    from checks import l1_serial as L1
    from contracts import entity as CE
    from contracts import serial as CS
    from kio.serial import entity_reader, entity_writer
    T = resolve(key)
    reg = CS.Registry(extra=CE.extra_lookup)
    out = []
    short = key.replace("kio.schema.", "")
    if "write" in clauses:
        w = entity_writer(T)
        c = reg.lookup(w)
        if c is None:
            out.append({"unit": f"L2/{short}/writer", "obligations": [], "paths": 0, "time": 0,
                        "undecided": ["closure returned by entity_writer is not recognised"], "functions": []})
        else:
            for r in L1.verify_writer(reg, w, c, label=f"L2/{short}"):
                r.unit = r.unit.replace("L1/writer/", "")
                out.append(common.summarise(r, [common.function_record(w)]))
    rd = [c for c in ("match", "trunc", "general") if c in clauses]
    if rd:
        r_ = entity_reader(T)
        c = reg.lookup(r_)
        if c is None:
            out.append({"unit": f"L2/{short}/reader", "obligations": [], "paths": 0, "time": 0,
                        "undecided": ["closure returned by entity_reader is not recognised"], "functions": []})
        else:
            for r in L1.verify_reader(reg, r_, c, label=f"L2/{short}", clauses=rd):
                r.unit = r.unit.replace("L1/reader/", "")
                out.append(common.summarise(r, [common.function_record(r_)]))
    for u in out:
        for ob in u["obligations"]:
            ob["name"] = ob["name"].replace("L1/writer/", "").replace("L1/reader/", "")
    return out
