"""Level 2: per-class obligations generated from the REAL closures entity_writer(T) /
entity_reader(T) (captured plans concrete, entity value / input bytes symbolic).  Callees are
used through their contracts only (level 1 and the contracts of the nested classes)."""
from __future__ import annotations

import dataclasses
import importlib
import pkgutil

import boot  # noqa: F401
from checks import common


def all_entities():
    """every dataclass defined in a module below kio.schema (independent walk of the package)"""
    import kio.schema
    out = []
    for m in pkgutil.walk_packages(kio.schema.__path__, "kio.schema."):
        if m.ispkg or m.name.count(".") < 4:
            continue
        mod = importlib.import_module(m.name)
        for name, v in vars(mod).items():
            if isinstance(v, type) and dataclasses.is_dataclass(v) and v.__module__ == mod.__name__:
                out.append(v)
    out.sort(key=lambda c: (c.__module__, c.__qualname__))
    return out


def class_key(T):
    return f"{T.__module__}:{T.__qualname__}"


def resolve(key):
    m, q = key.split(":")
    return getattr(importlib.import_module(m), q)


def nullable_used():
    """classes that some field uses as a nullable struct (KIP-893 marker byte)"""
    from spec import schema_spec
    used = set()
    for T in all_entities():
        for fs in schema_spec.field_plan(T):
            if fs.desc[0] == "nent":
                used.add(class_key(fs.desc[1]))
    return sorted(used)


def witness_only(replayer):
    """history replayer for the properties stated per call (C01, C02, C05, ...): a frame violation counts against them only
    with a witness history in hand; without one it is left to the frame checks (C07, C19) and stays undecided here"""
    def replay(ob):
        r = replayer(ob)
        if isinstance(r, dict) and r.get("confirmed") is None:
            r = dict(r, confirmed=False)
        return r
    return replay


def run_class(key, clauses, nullable=False):
    """clauses: subset of {'write', 'match', 'trunc', 'general'}; returns summary dicts"""
    from checks import l1_serial as L1
    from contracts import entity as CE
    from contracts import serial as CS
    from kio.serial import entity_reader, entity_writer
    T = resolve(key)
    reg = CS.Registry(extra=CE.extra_lookup)
    out = []
    short = key.replace("kio.schema.", "") + ("[nullable]" if nullable else "")
    if "write" in clauses:
        w = entity_writer(T, nullable)
        c = reg.lookup(w)
        if c is None:
            out.append({"unit": f"L2/{short}/writer", "obligations": [], "paths": 0, "time": 0,
                        "undecided": ["closure returned by entity_writer is not recognised"], "functions": []})
        else:
            from checks import frames
            for r in L1.verify_writer(reg, w, c, label=f"L2/{short}", history_replayer=witness_only(frames.history_replayer(key))):
                r.unit = r.unit.replace("L1/writer/", "")
                out.append(common.summarise(r, [common.function_record(w)]))
    rd = [c for c in ("match", "trunc", "general") if c in clauses]
    if rd:
        r_ = entity_reader(T, nullable)
        c = reg.lookup(r_)
        if c is None:
            out.append({"unit": f"L2/{short}/reader", "obligations": [], "paths": 0, "time": 0,
                        "undecided": ["closure returned by entity_reader is not recognised"], "functions": []})
        else:
            for r in L1.verify_reader(reg, r_, c, label=f"L2/{short}", clauses=rd):
                r.unit = r.unit.replace("L1/reader/", "")
                out.append(common.summarise(r, [common.function_record(r_)]))
    for u in out:
        for ob in u["obligations"]:
            ob["name"] = ob["name"].replace("L1/writer/", "").replace("L1/reader/", "")
    return out


def roundtrip_replayer(w, r, x, tail):
    def replay(ob):
        import io
        from checks.l1_serial import native_outcome, small_model
        from spec import domains
        conc = domains.Concretiser(small_model(ob))
        v = conc.value(x)
        t = conc.bterm(tail)
        buf = io.BytesIO()
        k, res = native_outcome(lambda: w(buf, v))
        if k == "raise":
            return {"confirmed": True, "input": repr(v)[:600], "expected": "encodes", "observed": f"writer raised {res.__name__}"}
        data = buf.getvalue()
        rb = io.BytesIO(data + t)
        k, res = native_outcome(lambda: r(rb))
        ok = k == "return" and res == v and rb.tell() == len(data)
        return {"confirmed": not ok, "input": repr(v)[:600], "encoded": data.hex()[:400], "tail": t.hex()[:40],
                "expected": {"value": "equal to input", "position": len(data)},
                "observed": {"outcome": k, "value": repr(res)[:400], "position": rb.tell()}}
    return replay


def run_roundtrip(key):
    """C01 at level 2, directly: the real read_entity body run on what the real write_entity
    body emitted (plus an arbitrary tail) returns the instance and leaves exactly the tail.
    Callees via contracts: a writer callee emits Enc(d_w, v), a reader callee consumes Enc(d_r, v)
    - the composition only needs d_w == d_r at every position, not the Kafka spec."""
    import z3
    from contracts import entity as CE
    from contracts import serial as CS
    from kio.serial import entity_reader, entity_writer
    from kvc.core import Raw, equalise, sym_eq, tobool
    from kvc.models import Sink, Source
    from kvc.verify import Result, collect, explore_unit, make_interp, path_obligation, run_body
    from spec import schema_spec
    T = resolve(key)
    reg = CS.Registry(extra=CE.extra_lookup)
    w, r = entity_writer(T), entity_reader(T)
    short = key.replace("kio.schema.", "")
    res = Result(f"L2/{short}/roundtrip")
    from checks import frames
    res.history_replayer = witness_only(frames.history_replayer(key))

    def run(ctx):
        x = schema_spec.generic_entity(ctx, T, "x")
        tail = ctx.bytes_const("tail")
        res.replayer = roundtrip_replayer(w, r, x, tail)
        sink = Sink(ctx)
        it = make_interp(ctx, reg, exclude=w)
        out = run_body(it, w, [sink, x])
        if out.kind != "return":
            path_obligation(res, ctx, f"{res.unit}/writer-accepts-canonical-instance", z3.BoolVal(False),
                            expected="normal return", got=repr(out))
            collect(res, ctx)
            return
        src = Source(ctx, list(sink.out()) + [Raw(tail)])
        it2 = make_interp(ctx, reg, exclude=r)
        out2 = run_body(it2, r, [src])
        if out2.kind != "return":
            path_obligation(res, ctx, f"{res.unit}/reader-accepts-writer-output", z3.BoolVal(False),
                            expected="a value", got=repr(out2))
        else:
            path_obligation(res, ctx, f"{res.unit}/decoded-equals-input", tobool(sym_eq(out2.value, x, ctx)),
                            expected="x", got=repr(out2.value)[:300])
            path_obligation(res, ctx, f"{res.unit}/exact-consumption", tobool(equalise(ctx, src.rest(), [Raw(tail)])),
                            expected="rest == tail", got=repr(src.rest())[:300])
        collect(res, ctx)
    explore_unit(res, run)
    return [common.summarise(res, [common.function_record(w), common.function_record(r)])]
