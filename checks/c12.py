"""C12 - primitive value types denote exactly their wire domains.

The real PhantomMeta.__instancecheck__ / __call__, Phantom.__instancecheck__ / parse and every
predicate are executed symbolically (bodies inlined, class concrete, value symbolic over a
tagged universe of Python kinds) against the documented characterisation below."""
from __future__ import annotations

import boot  # noqa: F401
import z3

from checks import common

KINDS = ("int", "bool", "float", "str", "bytes", "none", "timedelta", "aware_datetime", "naive_datetime")


def spec_table():
    """documented ranges (property statement / the types' own documentation)"""
    import kio.static.primitive as P
    t = {}
    for name, lo, hi in (("i8", -2 ** 7, 2 ** 7 - 1), ("i16", -2 ** 15, 2 ** 15 - 1), ("i32", -2 ** 31, 2 ** 31 - 1),
                         ("i64", -2 ** 63, 2 ** 63 - 1), ("u8", 0, 2 ** 8 - 1), ("u16", 0, 2 ** 16 - 1),
                         ("u32", 0, 2 ** 32 - 1), ("u64", 0, 2 ** 64 - 1), ("uvarint", 0, 2 ** 35 - 1),
                         ("uvarlong", 0, 2 ** 70 - 1), ("svarint", -2 ** 34, 2 ** 34 - 1),
                         ("svarlong", -2 ** 69, 2 ** 69 - 1)):
        t[name] = ("interval", lo, hi)
    t["f64"] = ("finite-float",)
    t["i32Timedelta"] = ("timedelta-us", -(2 ** 31) * 1000, (2 ** 31 - 1) * 1000)
    from kvc import opaque
    t["i64Timedelta"] = ("timedelta-us", opaque.TD_MIN_US, opaque.TD_MAX_US - 86400 * 10 ** 6)
    t["TZAwareMicros"] = ("aware", 1)
    t["TZAware"] = ("aware", 1000)
    t["Records"] = ("bytes",)
    return {getattr(P, k): v for k, v in t.items() if hasattr(P, k)}, [k for k in t if not hasattr(P, k)]


def generic_of_kind(ctx, kind):
    from kvc import opaque
    from kvc.core import Raw, SBool, SBytes, SInt, SOpaque, SStr
    if kind == "int":
        return SInt(ctx.int_const("v"))
    if kind == "bool":
        return SBool(ctx.bool_const("v"))
    if kind == "float":
        c = z3.Const("v", opaque.F)
        ctx.inputs["v"] = c
        return SOpaque(c, "float")
    if kind == "str":
        return SStr(ctx.str_const("v"))
    if kind == "bytes":
        return SBytes([Raw(ctx.bytes_const("v"))])
    if kind == "none":
        return None
    if kind == "timedelta":
        return SOpaque(ctx.int_const("v_us", opaque.TD_MIN_US, opaque.TD_MAX_US), "timedelta")
    if kind == "aware_datetime":
        us = ctx.int_const("v_us", opaque.DT_MIN_US + 86400 * 10 ** 6, opaque.DT_MAX_US - 86400 * 10 ** 6)
        offms = ctx.int_const("v_offset_ms", -86399999, 86399999)
        return SOpaque(us, "datetime", offms * 1000)
    if kind == "naive_datetime":
        return SOpaque(ctx.int_const("v_us"), "naive_datetime")
    raise KeyError(kind)


def expected_member(spec, kind, v):
    from kvc import opaque
    from kvc.core import zint
    s = spec[0]
    if s == "interval":
        if kind in ("int", "bool"):
            t = zint(v)
            return z3.And(t >= spec[1], t <= spec[2])
        return False
    if s == "finite-float":
        return opaque.isfinite(v.t) if kind == "float" else False
    if s == "timedelta-us":
        return z3.And(v.t >= spec[1], v.t <= spec[2]) if kind == "timedelta" else False
    if s == "aware":
        if kind != "aware_datetime":
            return False
        # aware, non-negative instant, precision: whole multiples of spec[1] microseconds
        return z3.And(v.t >= 0, v.t % spec[1] == 0)
    if s == "bytes":
        return kind == "bytes"
    raise KeyError(spec)


def units(tier):
    table, missing = spec_table()
    specs = []
    for T in table:
        for kind in KINDS:
            specs.append((T.__name__, kind))
    specs.append(("@lemmas", ""))
    return specs, missing


def _inline(fn):
    return getattr(fn, "__module__", "") in ("kio.static._phantom", "kio.static.primitive")


def run_unit(spec):
    import kio.static.primitive as P
    from contracts import serial as CS
    from kvc.core import PyRaise, tobool
    from kvc.verify import Outcome, Result, collect, explore_unit, make_interp, path_obligation
    tname, kind = spec
    if tname == "@lemmas":
        return lemmas()
    table, _ = spec_table()
    T = getattr(P, tname)
    sp = table[T]
    meta = type(T)
    reg = CS.Registry()
    out = []
    fns = [meta.__instancecheck__, meta.__call__, P.Phantom.__dict__["__instancecheck__"].__func__,
           P.Phantom.__dict__["parse"].__func__]
    pred = T.__dict__.get("__predicate__") or T.__predicate__
    if hasattr(pred, "__code__") and pred.__code__.co_name != "<lambda>":
        fns.append(pred)
    # ---- isinstance(v, T) <=> documented membership
    res = Result(f"C12/instancecheck/{tname}/{kind}")

    def run_i(ctx, res=res):
        v = generic_of_kind(ctx, kind)
        it = make_interp(ctx, reg, inline=_inline)
        it.inline_phantom = True
        res.replayer = member_replayer(T, kind, v)
        try:
            r = it.call_function(meta.__instancecheck__, [T, v])
        except PyRaise as e:
            path_obligation(res, ctx, f"{res.unit}/no-exception", z3.BoolVal(False), expected="a bool",
                            got=f"raise {e.cls.__name__}")
            collect(res, ctx)
            return
        got = it.truth_term(r)
        exp = expected_member(sp, kind, v)
        path_obligation(res, ctx, f"{res.unit}/iff-documented-range",
                        tobool(got) == tobool(exp), expected=str(exp)[:200], got=str(got)[:200])
        collect(res, ctx)
    explore_unit(res, run_i)
    out.append(common.summarise(res, [common.function_record(f) for f in fns]))
    # ---- T(v) returns v unchanged iff member, else TypeError
    res2 = Result(f"C12/constructor/{tname}/{kind}")

    def run_c(ctx, res=res2):
        v = generic_of_kind(ctx, kind)
        it = make_interp(ctx, reg, inline=_inline)
        it.inline_phantom = True
        res.replayer = member_replayer(T, kind, v, call=True)
        exp = tobool(expected_member(sp, kind, v))
        try:
            r = it.call_function(meta.__call__, [T, v])
            path_obligation(res, ctx, f"{res.unit}/accepts-only-members", exp, expected="member", got="returned")
            path_obligation(res, ctx, f"{res.unit}/returns-argument-unchanged", z3.BoolVal(r is v),
                            expected="the argument itself", got=repr(r)[:100])
        except PyRaise as e:
            path_obligation(res, ctx, f"{res.unit}/rejects-with-TypeError", z3.BoolVal(e.cls is TypeError),
                            expected="TypeError", got=e.cls.__name__)
            path_obligation(res, ctx, f"{res.unit}/rejects-only-non-members", z3.Not(exp), expected="non-member",
                            got="raised")
        collect(res, ctx)
    explore_unit(res2, run_c)
    out.append(common.summarise(res2, []))
    return out


def member_replayer(T, kind, v, call=False):
    def replay(ob):
        from checks.l1_serial import small_model
        from spec import domains
        import datetime
        m = small_model(ob)
        conc = domains.Concretiser(m)
        if kind == "aware_datetime":
            from kvc.core import SOpaque
            us = conc.int_(v.t)
            off = conc.int_(v.aux)
            val = (datetime.datetime(1970, 1, 1, tzinfo=datetime.timezone.utc) + datetime.timedelta(microseconds=us)
                   ).astimezone(datetime.timezone(datetime.timedelta(microseconds=off)))
        elif kind == "naive_datetime":
            val = datetime.datetime(2000, 1, 1) + datetime.timedelta(microseconds=conc.int_(v.t) % (10 ** 12))
        elif kind == "float":
            val = conc.float_(v.t)
            if not z3.is_true(m.eval(__import__("kvc.opaque", fromlist=["x"]).isfinite(v.t), model_completion=True)):
                val = float("inf")
        else:
            val = conc.value(v)
        table, _ = spec_table()
        sp = table[T]
        # documented membership, computed concretely
        if sp[0] == "interval":
            exp = isinstance(val, int) and sp[1] <= val <= sp[2]
        elif sp[0] == "finite-float":
            import math
            exp = isinstance(val, float) and math.isfinite(val)
        elif sp[0] == "timedelta-us":
            exp = isinstance(val, datetime.timedelta) and sp[1] <= val // datetime.timedelta(microseconds=1) <= sp[2]
        elif sp[0] == "aware":
            exp = False
            if isinstance(val, datetime.datetime) and val.tzinfo is not None and val.utcoffset() is not None:
                d = val - datetime.datetime(1970, 1, 1, tzinfo=datetime.timezone.utc)
                us = d // datetime.timedelta(microseconds=1)
                exp = us >= 0 and us % sp[1] == 0
        else:
            exp = isinstance(val, bytes)
        try:
            got = isinstance(val, T)
            if call:
                try:
                    r = T(val)
                    got = r is val
                except TypeError:
                    got = False
        except Exception as ex:       # noqa: BLE001
            got = f"raise {type(ex).__name__}"
        wc = None
        if sp[0] == "aware" and isinstance(val, datetime.datetime) and val.microsecond % 1000 == 0 and val.microsecond:
            wc = "timestamp with non-zero milliseconds"
        return {"confirmed": got != exp, "type": T.__name__, "input": repr(val), "expected_member": exp,
                "observed": got, "witness_class": wc}
    return replay


def lemmas():
    """nesting of the integer types and acceptance by the matching writer"""
    import kio.static.primitive as P
    from contracts import serial as CS
    from kvc.core import Ctx, PyRaise, SInt, tobool
    from kvc.verify import Result, collect, explore_unit, make_interp, path_obligation
    reg = CS.Registry()
    out = []
    chains = (("i8", "i16", "i32", "i64"), ("u8", "u16", "u32", "u64"))
    res = Result("C12/lemma/nesting")
    for chain in chains:
        for a, b in zip(chain, chain[1:]):
            A, B = getattr(P, a), getattr(P, b)

            def run(ctx, A=A, B=B, a=a, b=b):
                v = SInt(ctx.int_const("v"))
                it = make_interp(ctx, reg, inline=_inline)
                it.inline_phantom = True
                ra = it.truth_term(it.call_function(type(A).__instancecheck__, [A, v]))
                rb = it.truth_term(it.call_function(type(B).__instancecheck__, [B, v]))
                path_obligation(res, ctx, f"C12/lemma/nesting/{a}-in-{b}", z3.Implies(tobool(ra), tobool(rb)),
                                expected=f"every {a} is a {b}")
                collect(res, ctx)
            explore_unit(res, run)
    out.append(common.summarise(res, []))
    # acceptance: a member of a fixed-width type never makes the matching writer raise
    res2 = Result("C12/lemma/writer-accepts-members")
    pairs = (("i8", "write_int8"), ("i16", "write_int16"), ("i32", "write_int32"), ("i64", "write_int64"),
             ("u8", "write_uint8"), ("u16", "write_uint16"), ("u32", "write_uint32"), ("u64", "write_uint64"))
    for tname, wname in pairs:
        T = getattr(P, tname)
        wc = reg.writers[wname]

        def run(ctx, T=T, wc=wc, tname=tname, wname=wname):
            v = SInt(ctx.int_const("v"))
            it = make_interp(ctx, reg, inline=_inline)
            it.inline_phantom = True
            member = it.truth(it.call_function(type(T).__instancecheck__, [T, v]))
            if not member:
                return
            err = wc.error(ctx, v)
            path_obligation(res2, ctx, f"C12/lemma/writer-accepts-members/{tname}->{wname}", z3.BoolVal(err is None),
                            expected="no error for a member", got=str(err))
            collect(res2, ctx)
        explore_unit(res2, run)
    out.append(common.summarise(res2, []))
    return out


def main(tier):
    rep = common.Report("C12", tier, "contract-based deductive verification: the real phantom metaclass, parse and "
                        "predicate bodies executed symbolically (class concrete, value symbolic over 9 Python kinds) "
                        "against the documented ranges; z3")
    specs, missing = units(tier)
    for m in missing:
        rep.add_ground(f"C12/type-exists/{m}", False, "documented primitive type is missing")
    rep.add_units(common.run_units("checks.c12", specs))
    import kio.static.primitive as P
    for chain in (("i8", "i16", "i32", "i64"), ("u8", "u16", "u32", "u64")):
        for a, b in zip(chain, chain[1:]):
            rep.add_ground(f"C12/lemma/issubclass/{a}-{b}", issubclass(getattr(P, a), getattr(P, b)))
    from checks import history
    n3, f3 = history.phantom_history()
    rep.add_bounded("bounded/history-equal-but-distinct-arguments/primitive-types",
                    f"{n3} ordered pairs of equal-but-distinct arguments (1/True/1.0, n/float(n)/Fraction/Decimal, 0.0/-0.0) over the 13 "
                    "numeric primitive types: membership and constructor must not depend on earlier calls", n3, f3)
    rep.assumptions += [
        "aware datetimes are modelled as (instant in microseconds, UTC offset) with the offset a whole number of milliseconds",
        "dt.timestamp() >= 0 <=> instant >= 0 (trusted exact float fact); math.isfinite is an uninterpreted predicate on floats",
        "reads-back-equal for members follows from C11's writer/reader contracts (same descriptors); float-based writers are bounded there",
    ]
    return rep.finish("./vf check C12 --tier " + tier)


if __name__ == "__main__":
    import sys
    sys.exit(main(sys.argv[1] if len(sys.argv) > 1 else "quick"))
