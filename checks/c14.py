"""C14 - the versions of an API form a coherent family (ground invariants over all modules,
each fact read from the module AST and from the live class; exhaustive)."""
from __future__ import annotations

import sys
from collections import defaultdict

import boot  # noqa: F401
from checks import common, schema_facts as SF


def main(tier):
    rep = common.Report("C14", tier, "contract-style representation invariants over the schema package, discharged by "
                        "evaluation on every module (AST and live class must agree); exhaustive over the finite domain")
    mods = SF.walk_modules()
    fam = defaultdict(dict)          # (api, type) -> version -> facts
    keys = defaultdict(set)          # api -> api keys
    samples = []
    for modname, path, api, ver, etype in mods:
        pre = f"C14/{api}.v{ver}.{etype}"
        classes, header_import = SF.ast_classes(path)
        live = {c.__name__: c for c in SF.live_classes(modname)}
        rep.add_ground(f"{pre}/ast-and-live-classes-agree", sorted(live) == sorted(c["name"] for c in classes if c["is_dataclass"]),
                       f"{sorted(live)} vs {[c['name'] for c in classes]}")
        top = [c for c in classes if c["classvars"].get("__type__") != "EntityType.nested"]
        rep.add_ground(f"{pre}/one-top-level-class", len(top) == 1, [c["name"] for c in top])
        vals = defaultdict(set)
        for c in classes:
            L = live.get(c["name"])
            for var in ("__version__", "__flexible__", "__api_key__", "__header_schema__"):
                a = c["classvars"].get(var, "<absent>")
                vals[var].add(a)
                if L is not None:
                    lv = getattr(L, var, "<absent>")
                    lv = lv.__name__ if isinstance(lv, type) else lv
                    rep.add_ground(f"{pre}/{c['name']}/{var}/ast-equals-live", (a == lv) or (a == "<absent>" and lv == "<absent>"),
                                   f"ast {a!r} live {lv!r}")
        for var, s in vals.items():
            rep.add_ground(f"{pre}/all-classes-share/{var}", len(s) == 1, sorted(map(str, s)))
        # every class the module's entities *use* (reachable through field types) belongs to this module and version
        import dataclasses
        import typing
        seen, todo = set(), list(live.values())
        while todo:
            C = todo.pop()
            if C in seen:
                continue
            seen.add(C)
            try:
                hints = typing.get_type_hints(C)
            except Exception:       # noqa: BLE001
                continue
            for f in dataclasses.fields(C):
                stack = [hints[f.name]]
                while stack:
                    t = stack.pop()
                    stack.extend(typing.get_args(t))
                    if isinstance(t, type) and dataclasses.is_dataclass(t):
                        todo.append(t)
        for C in sorted(seen, key=lambda c: c.__qualname__):
            rep.add_ground(f"{pre}/uses/{C.__name__}/defined-in-this-module", C.__module__ == modname, C.__module__)
            rep.add_ground(f"{pre}/uses/{C.__name__}/carries-module-version", int(getattr(C, "__version__", -1)) == ver,
                           f"{getattr(C, '__version__', None)} vs v{ver}")
        version = next(iter(vals["__version__"])) if len(vals["__version__"]) == 1 else None
        rep.add_ground(f"{pre}/path-version-equals-class-version", version == ver, f"path v{ver}, classes {version}")
        if len(top) == 1:
            t = top[0]
            rep.add_ground(f"{pre}/path-type-equals-class-type", t["classvars"].get("__type__") == f"EntityType.{etype}",
                           t["classvars"].get("__type__"))
            base = SF.snake(t["name"])
            for suf in ("_request", "_response"):
                if etype == suf[1:] and base.endswith(suf):
                    base = base[: -len(suf)]
            rep.add_ground(f"{pre}/path-api-equals-class-name", base == api, f"{t['name']} -> {base} vs {api}")
            is_payload = etype in ("request", "response")
            rep.add_ground(f"{pre}/api-key-present-iff-payload", ("<absent>" not in vals["__api_key__"]) == is_payload,
                           sorted(map(str, vals["__api_key__"])))
            fam[(api, etype)][ver] = {"flexible": next(iter(vals["__flexible__"])), "key": next(iter(vals["__api_key__"]))}
            if is_payload:
                keys[api] |= vals["__api_key__"]
        if len(samples) < 3:
            samples.append({"module": modname, "classvars": {k: sorted(map(str, v)) for k, v in vals.items()}})
    for (api, etype), vs in sorted(fam.items()):
        pre = f"C14/family/{api}/{etype}"
        vers = sorted(vs)
        rep.add_ground(f"{pre}/versions-contiguous", vers == list(range(vers[0], vers[-1] + 1)), vers)
        flex = [vs[v]["flexible"] for v in vers]
        rep.add_ground(f"{pre}/flexibility-never-reverts", flex == sorted(flex, key=lambda b: bool(b)), flex)
        rep.add_ground(f"{pre}/api-key-constant", len({vs[v]["key"] for v in vers}) == 1, {vs[v]["key"] for v in vers})
    apis = sorted({a for (a, t) in fam if t in ("request", "response")})
    for api in apis:
        rq, rs = fam.get((api, "request"), {}), fam.get((api, "response"), {})
        rep.add_ground(f"C14/family/{api}/request-and-response-same-versions", sorted(rq) == sorted(rs), f"{sorted(rq)} vs {sorted(rs)}")
        for v in sorted(set(rq) & set(rs)):
            rep.add_ground(f"C14/family/{api}/v{v}/request-response-same-key-and-flexibility", rq[v] == rs[v], f"{rq[v]} vs {rs[v]}")
    allkeys = defaultdict(list)
    for api, ks in keys.items():
        for k in ks:
            allkeys[k].append(api)
    for k, a in sorted(allkeys.items(), key=lambda kv: str(kv[0])):
        rep.add_ground(f"C14/api-key-unique/{k}", len(a) == 1, a)
    rep.extra.update({"modules": len(mods), "families": len(fam), "exhaustive": True, "samples": samples})
    rep.assumptions.append("the schema package on disk is the one imported (kio.schema.__file__)")
    return rep.finish("./vf check C14 --tier " + tier)


if __name__ == "__main__":
    sys.exit(main(sys.argv[1] if len(sys.argv) > 1 else "quick"))
