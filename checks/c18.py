"""C18 - reading a record batch is faithful and rejects damaged data.

Symbolic (proved): the leaf readers of kio.records.readers against NB / header encodings;
read_batch on every well-formed magic-2 batch (symbolic header fields, any number of records)
returns the header fields as encoded and the records its record reader yields, consumes exactly
the batch, and write_batch of the result reproduces the input bytes (lemma over the two
contracts); a wrong magic byte and a checksum mismatch raise ValueError.  read_record computes
through floats: its real body is verified under the standard rounding model (kvc/fpmodel.py) and a
model of datetime.fromtimestamp; every clause of its contract is discharged except the timestamp
one, which is refuted (counterexample replayed on the real code) - the known finding: record
timestamps lose their millisecond part.  Every strict prefix of every well-formed batch raises
(read_batch/truncated: BufferUnderflow before the checksummed part, ValueError inside it under
the CRC-prefix axiom assumed in that unit); an arbitrary payload whose CRC-32C is not the stored
one raises before anything is parsed (read_batch/corrupted-payload).  Bit flips are detected
through the checksum: validated natively (bounded), since "CRC differs on different data" is an
axiom about CRC-32C, not a theorem."""
from __future__ import annotations

import sys

import boot  # noqa: F401
import z3

from checks import common

UNITS = ("nb_reader", "read_header", "read_record", "read_batch/well-formed", "read_batch/wrong-magic", "read_batch/checksum-mismatch",
         "read_batch/truncated", "read_batch/corrupted-payload")


def _inline(fn):
    return False


def run_unit(name):
    import kio.records.readers as RR
    from checks import l1_serial as L1
    from contracts import records as CR
    from kio.records.schema import RecordBatch
    from kvc.core import Enc, Lit, Raw, SInt, SRec, as_bytes, blen, equalise, lower, normalise, sym_eq, tobool, total_len, zint
    from kvc.models import Sink, Source
    from kvc.verify import Result, collect, explore_unit, make_interp, path_obligation, run_body
    reg = CR.reader_registry()
    out = []
    if name == "nb_reader":
        fn = RR.read_signed_compact_string_as_bytes_nullable
        for r in L1.verify_reader(reg, fn, reg.lookup(fn), label="records/nb", clauses=("match", "general")):
            out.append(common.summarise(r, [common.function_record(fn)]))
        return out
    if name == "read_header":
        fn = RR.read_header
        res = Result("C18/records.readers/read_header/match")

        def run(ctx):
            h = CR.generic_header(ctx, "header")
            tail = ctx.bytes_const("tail")
            src = Source(ctx, [Enc(("rhdr",), h), Raw(tail)])
            it = make_interp(ctx, reg, exclude=fn)
            it.symbolic_records = True
            o = run_body(it, fn, [src])
            if o.kind != "return":
                path_obligation(res, ctx, f"{res.unit}/returns", z3.BoolVal(False), got=repr(o))
            else:
                path_obligation(res, ctx, f"{res.unit}/value", tobool(sym_eq(o.value, h, ctx)), got=repr(o.value)[:200])
                path_obligation(res, ctx, f"{res.unit}/exact-consumption", tobool(equalise(ctx, src.rest(), [Raw(tail)])))
            collect(res, ctx)
        explore_unit(res, run)
        return [common.summarise(res, [common.function_record(fn)])]
    if name == "read_record":
        # the real body of read_record (float division, datetime.fromtimestamp, .replace) on Rec(r) relative to the bases:
        # this is the contract the batch-level proof uses at its call site (contracts.records.ReadRecordContract)
        fn = RR.read_record
        res = Result("C18/records.readers/read_record/well-formed")

        def run(ctx):
            bts = SInt(ctx.int_const("base_timestamp", -(2 ** 63), 2 ** 63 - 1))
            boff = SInt(ctx.int_const("base_offset", -(2 ** 63), 2 ** 63 - 1))
            r = CR.generic_record(ctx, "record")
            rc = CR.RecCtx(r, bts, boff)
            ctx.assume(CR.rec_requires(ctx, rc))
            want_us = r.fields["timestamp"].t
            ctx.assume(want_us % 1000 == 0)          # the wire carries whole milliseconds
            tail = ctx.bytes_const("tail")
            src = Source(ctx, [Enc(("rec",), rc), Raw(tail)])
            res.replayer = record_replayer(fn, r, bts, boff)
            it = make_interp(ctx, reg, exclude=fn, models=reg.records_models)
            it.symbolic_records = True
            o = run_body(it, fn, [src, bts, boff])
            if o.kind != "return" or not isinstance(o.value, SRec):
                path_obligation(res, ctx, f"{res.unit}/returns-a-record", z3.BoolVal(False), expected="a Record", got=repr(o)[:300])
                collect(res, ctx)
                return
            for k, v in r.fields.items():
                got = o.value.fields.get(k)
                path_obligation(res, ctx, f"{res.unit}/field/{k}", tobool(sym_eq(got, v, ctx)) if got is not None else z3.BoolVal(False),
                                expected=repr(v)[:120], got=repr(got)[:120])
            got = o.value.fields.get("timestamp")
            # implied by field/timestamp, kept apart from it because that one carries the known finding: the whole-second
            # part of the instant is as encoded, and a timestamp on a whole second is returned exactly
            gt = getattr(got, "t", None)
            if gt is None or getattr(got, "kind", None) != "datetime" or getattr(got, "aux", None) is not None:
                secs = z3.BoolVal(False)
            else:
                secs = z3.And(gt / 10 ** 6 == want_us / 10 ** 6, z3.Implies(want_us % 10 ** 6 == 0, gt == want_us), gt % 1000 == 0)
            path_obligation(res, ctx, f"{res.unit}/field/timestamp/whole-seconds-part", secs,
                            expected="same whole second as encoded; exact when the encoded instant is a whole second", got=repr(got)[:120])
            path_obligation(res, ctx, f"{res.unit}/exact-consumption", tobool(equalise(ctx, src.rest(), [Raw(tail)])))
            collect(res, ctx)
        explore_unit(res, run)
        return [common.summarise(res, [common.function_record(fn)])]
    # ---- read_batch
    fn = RR.read_batch
    mode = name.split("/")[1]
    res = Result(f"C18/records.readers/read_batch/{mode}")

    def run(ctx):
        def ints(spec):
            return {n: SInt(ctx.int_const(n, -(2 ** (8 * w - 1)) if s else 0, 2 ** (8 * w - 1) - 1 if s else 2 ** (8 * w) - 1))
                    for n, w, s in spec}
        f = ints((("base_offset", 8, True), ("partition_leader_epoch", 4, True), ("attributes", 2, True),
                  ("last_offset_delta", 4, True), ("base_timestamp", 8, True), ("max_timestamp", 8, True),
                  ("producer_id", 8, True), ("producer_epoch", 2, True), ("base_sequence", 4, True)))
        recs = CR.generic_records(ctx, "records", base_offset=f["base_offset"], base_ts=f["base_timestamp"])
        # well-formed: record timestamps (whole ms on the wire) do not exceed max_timestamp
        mk0 = recs.mk

        def mk(k):
            r = mk0(k)
            us = r.fields["timestamp"].t
            ctx.assume(us % 1000 == 0)
            ctx.assume(us / 1000 <= f["max_timestamp"].t)
            return r
        recs.mk = mk
        post = CR.post_segs(ctx, f["attributes"], f["last_offset_delta"], f["base_timestamp"], f["max_timestamp"], f["producer_id"],
                            f["producer_epoch"], f["base_sequence"], f["base_offset"], recs)
        plen = zint(total_len(normalise(post)))
        ctx.assume(plen + 9 <= 2 ** 31 - 1)
        true_crc = CR.crc_term(ctx, post)
        magic = 2
        crc = SInt(true_crc)
        if mode == "wrong-magic":
            magic = SInt(ctx.int_const("magic", -128, 127))
            ctx.assume(magic.t != 2)
        if mode == "checksum-mismatch":
            crc = SInt(ctx.int_const("stored_crc", 0, 2 ** 32 - 1))
            ctx.assume(crc.t != true_crc)
        bl = lower(z3.simplify(plen + 9))
        models = reg.records_models
        cut = garbage = None
        if mode == "corrupted-payload":
            # the checksummed part replaced by ARBITRARY bytes (any content, any length) whose CRC-32C is not the stored one:
            # the mismatch must be reported before a single byte of the payload is interpreted
            garbage = ctx.bytes_const("payload")
            ctx.assume(z3.And(blen(garbage) >= 0, blen(garbage) + 9 <= 2 ** 31 - 1))
            crc = SInt(ctx.int_const("stored_crc", 0, 2 ** 32 - 1))
            ctx.assume(crc.t != CR.crc_term(ctx, [Raw(garbage)]))
            post = [Raw(garbage)]
            bl = lower(z3.simplify(blen(garbage) + 9))
        segs = [Enc(("be", 8, True), f["base_offset"]), Enc(("be", 4, True), bl), Enc(("be", 4, True), f["partition_leader_epoch"]),
                Enc(("be", 1, True), magic), Enc(("be", 4, False), crc)] + post
        tail = ctx.bytes_const("tail")
        if mode == "truncated":
            # every strict prefix of every well-formed batch (cut anywhere, also inside an integer or inside the records)
            import crc32c as _crc
            cut = ctx.int_const("cut", 0)
            ctx.assume(cut < plen + 21)
            src = Source(ctx, segs, avail=lower(cut))

            def m_crc(interp, fr_, data, *rest):
                v = CR.m_crc32c(interp, fr_, data, *rest)
                if isinstance(v, SInt):
                    ln = zint(total_len(normalise(as_bytes(data))))
                    # CRC axiom (ASSUMED, not a theorem): a strict prefix of the checksummed bytes does not keep their CRC-32C
                    ctx.assume(z3.Implies(ln < plen, zint(v) != true_crc))
                return v
            models = {_crc.crc32c: m_crc}
        else:
            src = Source(ctx, segs + [Raw(tail)])
        res.replayer = batch_replayer(fn, mode, f, recs, magic, crc if mode in ("checksum-mismatch", "corrupted-payload") else None,
                                      cut=cut, garbage=garbage)
        it = make_interp(ctx, reg, exclude=fn, models=models)
        it.symbolic_records = True
        it.loop_handler = CR.batch_loop
        o = run_body(it, fn, [src])
        if mode == "truncated":
            # the property asks for "an error instead of a batch" - which error is not prescribed (today: BufferUnderflow
            # for a cut before the checksummed part, ValueError from the checksum for a cut inside it)
            ok = z3.BoolVal(o.kind == "raise" and isinstance(o.exc, type) and issubclass(o.exc, Exception))
            path_obligation(res, ctx, f"{res.unit}/raises-an-error", ok, expected="an exception, never a batch", got=repr(o)[:200])
            collect(res, ctx)
            return
        if mode != "well-formed":
            path_obligation(res, ctx, f"{res.unit}/raises-ValueError", z3.BoolVal(o.kind == "raise" and o.exc is ValueError),
                            expected="ValueError", got=repr(o)[:200])
            collect(res, ctx)
            return
        if o.kind != "return" or not isinstance(o.value, SRec):
            path_obligation(res, ctx, f"{res.unit}/returns-a-batch", z3.BoolVal(False), got=repr(o)[:300])
            collect(res, ctx)
            return
        b = o.value
        want = dict(f)
        want.update({"batch_length": bl, "crc": crc, "records": recs})
        for k, v in want.items():
            got = b.fields.get(k)
            path_obligation(res, ctx, f"{res.unit}/field/{k}", tobool(sym_eq(got, v, ctx)) if got is not None else z3.BoolVal(False),
                            expected=repr(v)[:120], got=repr(got)[:120])
        path_obligation(res, ctx, f"{res.unit}/exact-consumption", tobool(equalise(ctx, src.rest(), [Raw(tail)])))
        # lemma: writing the returned batch back (contract of write_prepared_batch, C17) reproduces the input
        sink = Sink(ctx)
        CR.WritePreparedBatch().apply(it, [sink, b], {})
        path_obligation(res, ctx, f"{res.unit}/lemma/write-after-read-reproduces-the-bytes", tobool(equalise(ctx, sink.out(), segs)),
                        expected="input bytes", got=repr(sink.out())[:200])
        collect(res, ctx)
    explore_unit(res, run)
    return [common.summarise(res, [common.function_record(fn)])]


def record_replayer(fn, r, bts, boff):
    """concretise the record and the bases, encode with the reference encoder, run the real read_record"""
    def replay(ob):
        import dataclasses
        import io
        from checks.l1_serial import native_outcome, small_model
        from spec import domains
        from spec import records_spec as RS
        conc = domains.Concretiser(small_model(ob))
        rec = conc.value(r)
        b_ts, b_off = conc.int_(bts.t), conc.int_(boff.t)
        try:
            data = RS.encode_record(rec, b_ts, b_off)
        except Exception as ex:       # noqa: BLE001
            return {"confirmed": None, "note": f"reference encoder not applicable to the concretised record: {ex!r}"}
        buf = io.BytesIO(data + b"\x33")
        k, got = native_outcome(lambda: fn(buf, b_ts, b_off))
        ok = k == "return" and got == rec and buf.tell() == len(data)
        # the known finding in its exact shape: everything as encoded except that the timestamp lost its milliseconds
        d6 = (k == "return" and buf.tell() == len(data) and type(got) is type(rec) and got != rec
              and rec.timestamp.microsecond != 0 and got.timestamp == rec.timestamp.replace(microsecond=0)
              and dataclasses.replace(got, timestamp=rec.timestamp) == rec)
        return {"confirmed": not ok, "input_bytes": data.hex()[:400], "base_timestamp": b_ts, "base_offset": b_off,
                "expected": repr(rec)[:300], "witness_class": "record timestamp with non-zero milliseconds" if d6 else None,
                "observed": {"outcome": k, "value": (repr(got)[:300] if k == "return" else got.__name__), "position": buf.tell()}}
    return replay


def batch_replayer(fn, mode, f, recs, magic, bad_crc, cut=None, garbage=None):
    """concretise the symbolic batch, encode it with the reference encoder and run the real reader"""
    def replay(ob):
        import io
        from checks.l1_serial import native_outcome, small_model
        from spec import domains
        from spec import records_spec as RS
        conc = domains.Concretiser(small_model(ob))
        v = {k: conc.value(x) for k, x in f.items()}
        if mode == "corrupted-payload":
            payload = conc.bterm(garbage)
            stored = conc.int_(bad_crc.t)
            if RS.crc32c_ref(payload) == stored:
                return {"confirmed": None, "note": "the concretised payload happens to have the stored CRC"}
            data = (RS.be(8, v["base_offset"]) + RS.be(4, len(payload) + 9) + RS.be(4, v["partition_leader_epoch"]) + RS.be(1, 2)
                    + RS.be(4, stored, False) + payload)
            buf = io.BytesIO(data + b"\x33")
            k, r = native_outcome(lambda: fn(buf))
            ok = k == "raise" and r is ValueError
            return {"confirmed": not ok, "input_bytes": data.hex()[:400], "expected": "ValueError (checksum mismatch)",
                    "observed": {"outcome": k, "value": (repr(r)[:200] if k == "return" else r.__name__), "position": buf.tell()}}
        records = list(conc.value(recs))
        try:
            post = RS.encode_post(v["attributes"], v["last_offset_delta"], v["base_timestamp"], v["max_timestamp"], v["producer_id"],
                                  v["producer_epoch"], v["base_sequence"], v["base_offset"], records)
        except Exception as ex:       # noqa: BLE001
            return {"confirmed": None, "note": f"reference encoder not applicable to the concretised batch: {ex!r}"}
        crc = RS.crc32c_ref(post) if bad_crc is None else conc.int_(bad_crc.t)
        m = conc.int_(magic.t) if hasattr(magic, "t") else 2
        data = RS.be(8, v["base_offset"]) + RS.be(4, len(post) + 9) + RS.be(4, v["partition_leader_epoch"]) + RS.be(1, m) + RS.be(4, crc, False) + post
        if mode == "truncated":
            c = conc.int_(cut)
            if not 0 <= c < len(data):
                return {"confirmed": None, "note": f"cut {c} outside the concretised batch of {len(data)} bytes"}
            buf = io.BytesIO(data[:c])
            k, r = native_outcome(lambda: fn(buf))
            ok = k == "raise" and issubclass(r, Exception)
            return {"confirmed": not ok, "input_bytes": data[:c].hex()[:400], "cut": c, "of": len(data), "expected": "an exception",
                    "observed": {"outcome": k, "value": (repr(r)[:200] if k == "return" else r.__name__), "position": buf.tell()}}
        buf = io.BytesIO(data + b"\x33")
        k, r = native_outcome(lambda: fn(buf))
        if mode == "well-formed":
            ok = k == "return" and buf.tell() == len(data) and all(getattr(r, n) == v[n] for n in v) and len(r.records) == len(records)
            exp = "a batch with the encoded header fields, exactly the batch consumed"
        else:
            ok = k == "raise" and r is ValueError
            exp = "ValueError"
        return {"confirmed": not ok, "input_bytes": data.hex()[:400], "records": len(records), "expected": exp,
                "observed": {"outcome": k, "value": (repr(r)[:200] if k == "return" else r.__name__), "position": buf.tell()}}
    return replay


def main(tier):
    rep = common.Report("C18", tier, "contract-based deductive verification of kio.records.readers (real bodies; batch loop by an "
                        "inductive generic-iteration rule; read_record's float path under the standard rounding model; CRC uninterpreted) "
                        "+ lemma over the reader and writer contracts; the corruption/truncation clauses: bounded native run (stand-in)")
    rep.add_units(common.run_units("checks.c18", list(UNITS)))
    from checks import bounded_records as BR
    n, fails = BR.check_reader(tier)
    rep.add_bounded("bounded/records-reader-on-reference-batches-and-broker-fixtures",
                    f"{n} batches (reference-encoded grid + the four real-broker fixtures): fields as encoded, read-then-write "
                    "reproduces the bytes (validation of the float/datetime model used for read_record)", n, fails)
    n2, fails2 = BR.check_corruption(tier)
    rep.add_bounded("bounded/records-corruption-and-truncation",
                    f"{n2} damaged inputs: every single-bit flip from the CRC field to the end, 4 wrong magic bytes and every "
                    "truncation point of the fixtures and of reference batches", n2, fails2)
    rep.assumptions += [
        "read_record: the timestamp clause of its contract does not hold (known finding: millisecond part dropped), so the "
        "batch-level proof's record timestamps are conditional on it; the other clauses are discharged from the real body",
        "datetime.fromtimestamp(x, UTC) returns the instant N us with |N - x*10^6| <= 1/2 + 2^-33 (CPython rounds half even "
        "after one rounded multiplication of the fractional part); int/const is exact when the quotient is an integer <= 2^53; "
        "record timestamps within 0 .. 9999-12-31T23:59:59.999Z in whole milliseconds",
        "CRC axiom (not a theorem): damaged or truncated data does not keep its CRC-32C; assumed explicitly in read_batch/truncated "
        "(a strict prefix of the checksummed bytes has a different CRC-32C) and validated natively on the fixtures",
        "well-formed batch: magic 2, batch_length = |post| + 9 < 2^31, crc = CRC-32C(post), record timestamps <= max_timestamp",
    ]
    return rep.finish("./vf check C18 --tier " + tier)


if __name__ == "__main__":
    sys.exit(main(sys.argv[1] if len(sys.argv) > 1 else "quick"))
