"""C16 bounded part: an enumerated abstract domain of well-formed message definitions, an
INDEPENDENT reading of the upstream JSON format (which fields / nullability / tags / defaults a
version has) and an independent definition-driven encoder. Nothing here imports codegen."""
from __future__ import annotations

import builtins
import itertools
import random
import re

PRIMS = ("bool", "int8", "int16", "int32", "int64", "uint16", "uint32", "uint64", "float64", "string", "bytes", "uuid", "records")
INTS = {"int8": (1, True), "int16": (2, True), "int32": (4, True), "int64": (8, True), "uint16": (2, False),
        "uint32": (4, False), "uint64": (8, False)}
TIMEDELTA_NAMES = ("TimeoutMs", "ThrottleTimeMs", "MaxWaitMs", "SessionLifetimeMs", "RetentionTimeMs")
DATETIME_NAMES = ("IssueTimestampMs", "ExpiryTimestampMs", "MaxTimestampMs", "LogAppendTimeMs")


# ------------------------------------------------------------------------------ version ranges (independent)
def parse_range(s):
    if s is None:
        return None
    if s == "none":
        return (1, 0)
    if s.endswith("+"):
        return (int(s[:-1]), 10 ** 9)
    if "-" in s:
        a, b = s.split("-", 1)
        return (int(a), int(b))
    return (int(s), int(s))


def matches(rng, v):
    return rng is not None and rng[0] <= v <= rng[1]


def snake(name):
    s = re.sub(r"(?<=[a-z0-9])(?=[A-Z])", "_", name)
    s = re.sub(r"(?<=[A-Z])(?=[A-Z][a-z])", "_", s)
    s = s.lower()
    return s + "_" if s in dir(builtins) else s


# ------------------------------------------------------------------------------ semantic type of a field
def semantic_type(f):
    """kafka type name as kio models it: special field names carry time / error-code types"""
    t = f["type"]
    n = f["name"]
    if n in ("ErrorCode", "PartitionErrorCode"):
        return "error_code"
    if n in TIMEDELTA_NAMES:
        return "timedelta_i32" if t == "int32" else "timedelta_i64"
    if n in DATETIME_NAMES:
        return "datetime_i64"
    return t


def py_name(f):
    n = f["name"]
    if n in TIMEDELTA_NAMES or n in DATETIME_NAMES:
        n = n[:-2]
    return snake(n)


def field_versions(f):
    return parse_range(f.get("versions", f.get("taggedVersions")))


def fields_in_version(fields, v):
    return [f for f in fields if matches(field_versions(f), v)]


def is_array(f):
    return f["type"].startswith("[]")


def item_type(f):
    return f["type"][2:]


def struct_fields(d, f):
    """fields of a struct-typed field: inline `fields` or a common struct of the definition"""
    if "fields" in f:
        return f["fields"]
    name = item_type(f) if is_array(f) else f["type"]
    for cs in d.get("commonStructs", ()):
        if cs["name"] == name:
            return cs["fields"]
    return None


def kind_of(d, f):
    t = item_type(f) if is_array(f) else f["type"]
    return "primitive" if t in PRIMS else "struct"


# ------------------------------------------------------------------------------ the enumerated domain
def mk_field(name, type_, versions="0+", **kw):
    f = {"name": name, "type": type_, "versions": versions, "about": f"about {name}"}
    f.update({k: v for k, v in kw.items() if v is not None})
    return f


def definitions(tier, seed=0):
    """request/response/header/data definitions covering, pairwise, field kind x version-range shape x
    nullableVersions x tagging x default spelling x flexibleVersions x nesting (<= 2) x special names"""
    rnd = random.Random(seed)
    defs = []
    ranges = ("0+", "1+", "0-1", "2", "1-2")
    defaults = {"int8": ("-1", "0x7f", None), "int16": ("5", "-0x1", None), "int32": ("2147483647", "-1", None),
                "int64": ("-1", "0x7fffffffffffffff", None), "uint16": ("65535", None), "uint32": ("0", None),
                "uint64": ("1", None), "bool": ("true", "false", None), "string": ("", "abc", "null", None),
                "float64": ("0.5", None), "bytes": (None,), "uuid": (None,), "records": (None,)}
    n_defs = 14 if tier == "quick" else 90
    kinds = ("request", "response", "data", "header")
    idx = 0
    for i in range(n_defs):
        kind = kinds[i % 4] if i >= 4 else ("request", "response", "request", "response")[i]
        hi = rnd.choice((1, 2, 3))
        flex = rnd.choice(("none", "0+", "1+", "2+")) if i % 5 else "none"
        flex_first = None if flex == "none" else int(flex[:-1])
        name = f"Synth{i}" + {"request": "Request", "response": "Response", "data": "Data", "header": "Hdr"}[kind]
        fields = []
        prims = list(PRIMS)
        rnd.shuffle(prims)
        used_tags = itertools.count(0)
        for j, p in enumerate(prims[: rnd.randint(4, 9)]):
            idx += 1
            rng = ranges[(i + j) % len(ranges)]
            lo = parse_range(rng)[0]
            if lo > hi:
                rng = "0+"
            f = mk_field(f"Fld{idx}{p.capitalize()}", p, rng)
            dflt = rnd.choice(defaults[p])
            if p in ("string", "bytes", "records") and (i + j) % 3 == 0:
                f["nullableVersions"] = rnd.choice(("0+", "1+"))
            if dflt == "null" and "nullableVersions" not in f:
                dflt = None
            if dflt == "null":
                f["nullableVersions"] = "0+"
            if dflt is not None:
                f["default"] = dflt
            # tagged variant (only meaningful in flexible versions)
            if flex_first is not None and (i + j) % 4 == 1 and p not in ("records",):
                tv = f"{max(flex_first, parse_range(rng)[0])}+"
                f["taggedVersions"] = tv
                f["tag"] = next(used_tags)
                f["versions"] = tv
                f["ignorable"] = True
                f.pop("nullableVersions", None)
                if f.get("default") == "null":
                    f.pop("default")
            fields.append(f)
        # special names
        if i % 3 == 0:
            fields.append(mk_field("ErrorCode", "int16", "0+"))
        if i % 4 == 1:
            fields.append(mk_field("ThrottleTimeMs", "int32", "0+"))
        if i % 4 == 2:
            fields.append(mk_field("SessionLifetimeMs", "int64", "0+"))
        if i % 5 == 3:
            fields.append(mk_field("LogAppendTimeMs", "int64", "0+", default="-1"))
        if i % 5 == 4:
            fields.append(mk_field("MaxTimestampMs", "int64", "1+"))
        # primitive arrays
        fields.append(mk_field(f"Arr{i}Ints", "[]int32", "0+"))
        if i % 2:
            fields.append(mk_field(f"Arr{i}Names", "[]string", "0+", nullableVersions="1+" if i % 4 == 1 else None))
        # struct array with nesting, builtin-colliding and acronym names
        inner = [mk_field("Type", "int8", "0+"), mk_field("ISRNodes", "[]int32", "0+"), mk_field("V3AndBelow", "string", "1+", default="x")]
        if i % 2 == 0:
            inner.append(mk_field(f"Deep{i}", f"[]Deep{i}Item", "0+", fields=[mk_field("Id", "int64", "0+"), mk_field("Name", "string", "0+", nullableVersions="0+")]))
        fields.append(mk_field(f"Items{i}", f"[]Item{i}", "0+", fields=inner, nullableVersions="1+" if i % 3 == 1 else None))
        # nested single struct, nullable from some version (KIP-893)
        if i % 3 == 2:
            fields.append(mk_field(f"Single{i}", f"Single{i}Struct", "1+", fields=[mk_field("Flag", "bool", "0+"), mk_field("Size", "uint16", "0+")],
                                   nullableVersions="1+" if i % 2 else None))
        # tagged nested struct whose members all carry defaults (cf. FetchRequest v15 ReplicaState), ignorable or not
        if flex_first is not None and i % 2 == 0:
            tv = f"{flex_first}+"
            fields.append(mk_field(f"Opt{i}State", f"Opt{i}StateStruct", tv, taggedVersions=tv, tag=next(used_tags),
                                   ignorable=True if i % 4 == 0 else None,
                                   fields=[mk_field("ReplicaRef", "int32", "0+", default="-1"), mk_field("Epoch", "int64", "0+", default="-1")]))
        # common struct
        common = []
        if i % 4 == 3:
            common = [{"name": f"Shared{i}", "versions": "0+", "fields": [mk_field("Host", "string", "0+"), mk_field("Port", "uint16", "0+")]}]
            fields.append(mk_field(f"Peers{i}", f"[]Shared{i}", "0+"))
        # entity type (custom type)
        if i % 6 == 0:
            fields.append(mk_field("BrokerRef", "int32", "0+", entityType="brokerId"))
        d = {"name": name, "type": kind, "validVersions": f"0-{hi}", "flexibleVersions": flex, "fields": fields}
        if common:
            d["commonStructs"] = common
        if kind in ("request", "response"):
            d["apiKey"] = 100 + i // 2 if i >= 4 else (7 if i < 2 else 18)
        defs.append(d)
    # request/response pairs must share name stems for the index: handled by the generator's own naming
    return defs


FIXED = [
    {"name": "RequestHeader", "type": "header", "validVersions": "0-2", "flexibleVersions": "2+", "fields": [
        mk_field("RequestApiKey", "int16", "0+"), mk_field("RequestApiVersion", "int16", "0+"), mk_field("CorrelationId", "int32", "0+"),
        mk_field("ClientId", "string", "1+", nullableVersions="1+", ignorable=True)]},
    {"name": "ResponseHeader", "type": "header", "validVersions": "0-1", "flexibleVersions": "1+", "fields": [
        mk_field("CorrelationId", "int32", "0+")]},
    {"name": "MetadataRequest", "type": "request", "apiKey": 3, "validVersions": "0-12", "flexibleVersions": "9+", "fields": [
        mk_field("AllowAutoTopicCreation", "bool", "4+", default="true")]},
    {"name": "MetadataResponse", "type": "response", "apiKey": 3, "validVersions": "0-12", "flexibleVersions": "9+", "fields": [
        mk_field("ThrottleTimeMs", "int32", "3+")]},
    # custom (entityType) types in every nullability situation: declared nullable from some version on, never nullable,
    # nullable by the tagged/ignorable convention, and with a default
    {"name": "CustomTypedRequest", "type": "request", "apiKey": 90, "validVersions": "0-2", "flexibleVersions": "2+", "fields": [
        mk_field("TransactionalId", "string", "0+", nullableVersions="1+", entityType="transactionalId"),
        mk_field("GroupRef", "string", "0+", entityType="groupId"),
        mk_field("Leader", "int32", "0+", entityType="brokerId", default="-1"),
        mk_field("Producer", "int64", "1+", entityType="producerId"),
        mk_field("TopicRef", "string", "2+", taggedVersions="2+", tag=0, ignorable=True, entityType="topicName"),
        mk_field("Members", "[]string", "0+", entityType="groupId")]},
    {"name": "CustomTypedResponse", "type": "response", "apiKey": 90, "validVersions": "0-2", "flexibleVersions": "2+", "fields": [
        mk_field("TransactionalId", "string", "0+", nullableVersions="0+", default="null", entityType="transactionalId")]},
    # ignorable tagged fields WITHOUT default of the types that have no null on the wire (and of those that have one)
    {"name": "TaggedZeroesData", "type": "data", "validVersions": "0-1", "flexibleVersions": "0+", "fields": [
        mk_field("Plain", "int32", "0+"),
        mk_field("Flag", "bool", "0+", taggedVersions="0+", tag=0, ignorable=True),
        mk_field("ErrorCode", "int16", "0+", taggedVersions="0+", tag=1, ignorable=True),
        mk_field("TimeoutMs", "int32", "0+", taggedVersions="0+", tag=2, ignorable=True),
        mk_field("RetentionTimeMs", "int64", "1+", taggedVersions="1+", tag=3, ignorable=True),
        mk_field("Ratio", "float64", "0+", taggedVersions="0+", tag=4, ignorable=True),
        mk_field("Note", "string", "0+", taggedVersions="0+", tag=5, ignorable=True),
        mk_field("Owner", "uuid", "0+", taggedVersions="0+", tag=6, ignorable=True)]},
]


# ------------------------------------------------------------------------------ expected model per version
def header_version(kind, api_key, version, flexible):
    if kind == "request":
        if version == 0 and api_key == 7:
            return 0
        return 2 if flexible else 1
    if api_key == 18:
        return 0
    return 1 if flexible else 0


def parse_default(f, st):
    """explicit default of the definition as a comparable python value ('<none>' when absent)"""
    d = f.get("default")
    if d is None:
        return "<absent>"
    if d == "null":
        return None
    if st in INTS:
        return int(d, 0)
    if st == "bool":
        return d == "true"
    if st == "float64":
        return float(d)
    if st == "string":
        return d
    if st in ("timedelta_i32", "timedelta_i64"):
        return ("ms", int(d))
    if st == "datetime_i64" and d == "-1":
        return None
    return ("raw", d)


def expected_struct(d, fields, v, flexible):
    out = []
    for f in fields_in_version(fields, v):
        st = semantic_type(f) if not is_array(f) else item_type(f)
        tagrng = parse_range(f.get("taggedVersions"))
        tag = f.get("tag") if matches(tagrng, v) else None
        nullable = matches(parse_range(f.get("nullableVersions")), v)
        e = {"name": py_name(f), "array": is_array(f), "kind": kind_of(d, f), "type": st, "tag": tag, "nullable": nullable,
             "default": parse_default(f, st) if not is_array(f) else "<absent>", "ignorable": bool(f.get("ignorable"))}
        if e["kind"] == "struct":
            e["struct_name"] = item_type(f) if is_array(f) else f["type"]
            e["fields"] = expected_struct(d, struct_fields(d, f), v, flexible)
        out.append(e)
    return out


def expected_module(d, v):
    flexible = matches(parse_range(d["flexibleVersions"]), v)
    m = {"class": d["name"], "version": v, "flexible": flexible, "type": d["type"], "fields": expected_struct(d, d["fields"], v, flexible)}
    if d["type"] in ("request", "response"):
        m["api_key"] = d["apiKey"]
        m["header_version"] = header_version(d["type"], d["apiKey"], v, flexible)
    return m


def api_name(d):
    s = snake(d["name"]) if not d["name"].endswith(tuple("0123456789")) else snake(d["name"])
    for suf in ("_response", "_request"):
        if s.endswith(suf):
            s = s[: -len(suf)]
    return s
