"""C05 - see checks/l2props.py (CONFIG["C05"]), checks/conf.py and DESIGN.md section 4."""
import sys

import boot  # noqa: F401
from checks import l2props


def main(tier):
    return l2props.main("C05", tier)


if __name__ == "__main__":
    sys.exit(main(sys.argv[1] if len(sys.argv) > 1 else "quick"))
