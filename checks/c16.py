"""C16 - the generator translates any well-formed message definition faithfully.  BOUNDED, with a
proved core: never reported as proved beyond the functions listed under `functions_under_contract`.

Proved (symbolic execution of the real bodies): VersionRange.matches, _BaseField.get_tag,
_BaseField.is_nullable_for_version, PrimitiveField.is_nullable, filter_version_fields,
message_class_vars, _entity_type_line, header_schema.* (shared with C08).
Enumerated completely (finite tables, ground obligations on the emitted text): Primitive.get_type_hint for the 17
primitives x {required, optional}; _format_default_for_tagged for the 17 primitives and the three composite kinds.
Bounded (run-time contract, stated bound): the real generate_schema.main() / generate_index.main()
executed in a scratch tree outside /repo and /verif on an enumerated domain of definitions; for every
declared version the emitted module is imported and compared with an independent reading of the
definition (checks/c16_defs.py), and a populated instance is encoded through the real kio.serial and
compared byte for byte with an independent definition-driven encoder."""
from __future__ import annotations

import datetime
import json
import os
import shutil
import subprocess
import sys
import tempfile
import uuid

import boot  # noqa: F401
import z3

from checks import c16_defs as D
from checks import common


# ------------------------------------------------------------------------------ proved core
def symbolic_core():
    from codegen import generate_schema as G
    from codegen import parser as P
    from codegen.versions import VersionRange
    from contracts import serial as CS
    from kvc.core import SBool, SInt, SRec, tobool, zint
    from kvc.verify import Result, collect, explore_unit, make_interp, path_obligation, run_body
    reg = CS.Registry()
    out = []

    def inline(fn):
        return getattr(fn, "__module__", "").startswith("codegen.")
    INF = float("inf")
    shapes = {"N+": lambda ctx: (SInt(ctx.int_const("low", 0)), INF), "N-M": lambda ctx: (SInt(ctx.int_const("low", 0)), SInt(ctx.int_const("high", 0))),
              "none": lambda ctx: (INF, -INF)}

    def in_range(lo, hi, v):
        a = z3.BoolVal(True) if lo == -INF else (z3.BoolVal(False) if lo == INF else zint(lo) <= v)
        b = z3.BoolVal(True) if hi == INF else (z3.BoolVal(False) if hi == -INF else v <= zint(hi))
        return z3.And(a, b)
    # ---- VersionRange.matches
    res = Result("C16/core/VersionRange.matches")
    for shape, mk in shapes.items():
        def run(ctx, mk=mk, shape=shape):
            lo, hi = mk(ctx)
            v = SInt(ctx.int_const("version"))
            it = make_interp(ctx, reg, inline=inline)
            o = run_body(it, VersionRange.matches, [VersionRange(lo, hi), v])
            got = it.truth_term(o.value) if o.kind == "return" else None
            path_obligation(res, ctx, f"{res.unit}/{shape}", tobool(got) == in_range(lo, hi, v.t) if got is not None else z3.BoolVal(False),
                            expected="low <= version <= high", got=repr(o)[:100])
            collect(res, ctx)
        explore_unit(res, run)
    out.append(common.summarise(res, [common.function_record(VersionRange.matches)]))
    # ---- get_tag / is_nullable_for_version / PrimitiveField.is_nullable on a symbolic field record
    res2 = Result("C16/core/field-version-resolution")
    prim_members = list(P.Primitive)
    for tshape in (None, "N+", "N-M", "none"):
        for nshape in (None, "N+", "none"):
            def run2(ctx, tshape=tshape, nshape=nshape):
                v = SInt(ctx.int_const("version", 0))
                tv = None if tshape is None else VersionRange(*shapes[tshape](ctx))
                if nshape is None:
                    nv = None
                else:
                    nlo = SInt(ctx.int_const("nlow", 0)) if nshape == "N+" else INF
                    nv = VersionRange(nlo, INF if nshape == "N+" else -INF)
                tag = SInt(ctx.int_const("tag", 0)) if tv is not None else None
                ign = SBool(ctx.bool_const("ignorable"))
                it = make_interp(ctx, reg, inline=inline)
                base = {"taggedVersions": tv, "tag": tag, "nullableVersions": nv, "ignorable": ign}
                f = SRec(P._BaseField, dict(base))
                o = run_body(it, P._BaseField.get_tag, [f, v])
                tagged = z3.BoolVal(False) if tv is None else in_range(tv.low, tv.high, v.t)
                if o.kind == "return":
                    ok = z3.And(tagged, z3.BoolVal(o.value is tag)) if o.value is not None else z3.Not(tagged)
                else:
                    ok = z3.BoolVal(False)
                path_obligation(res2, ctx, f"{res2.unit}/get_tag/{tshape}", ok, expected="tag iff taggedVersions matches", got=repr(o)[:100])
                o2 = run_body(it, P._BaseField.is_nullable_for_version, [f, v])
                nullable = z3.BoolVal(False) if nv is None else in_range(nv.low, nv.high, v.t)
                path_obligation(res2, ctx, f"{res2.unit}/is_nullable_for_version/{nshape}",
                                tobool(it.truth_term(o2.value)) == nullable if o2.kind == "return" else z3.BoolVal(False),
                                expected="nullableVersions matches", got=repr(o2)[:100])
                collect(res2, ctx)
            explore_unit(res2, run2)
    out.append(common.summarise(res2, [common.function_record(P._BaseField.get_tag), common.function_record(P._BaseField.is_nullable_for_version)]))
    res3 = Result("C16/core/PrimitiveField.is_nullable")
    # types without a null form on the wire: the definition cannot make them nullable, and kio's convention
    # "an ignorable tagged field without default is Optional" is only implementable where a null encoding exists
    never = {P.Primitive.int8, P.Primitive.int16, P.Primitive.int32, P.Primitive.int64, P.Primitive.uint16, P.Primitive.uint32,
             P.Primitive.uint64, P.Primitive.float64, P.Primitive.bool_, P.Primitive.error_code, P.Primitive.timedelta_i32,
             P.Primitive.timedelta_i64}
    for prim in prim_members:
        for default in (None, "-1", "x"):
            def run3(ctx, prim=prim, default=default):
                v = SInt(ctx.int_const("version", 0))
                tlo, nlo = SInt(ctx.int_const("tlow", 0)), SInt(ctx.int_const("nlow", 0))
                has_t, has_n = ctx.decide_free("has_tag"), ctx.decide_free("has_nullable")
                tv = VersionRange(tlo, INF) if has_t else None
                nv = VersionRange(nlo, INF) if has_n else None
                ign = SBool(ctx.bool_const("ignorable"))
                f = SRec(P.PrimitiveField, {"type": prim, "default": default, "taggedVersions": tv, "tag": 0 if has_t else None,
                                            "nullableVersions": nv, "ignorable": ign})
                it = make_interp(ctx, reg, inline=inline)
                o = run_body(it, P.PrimitiveField.is_nullable, [f, v])
                tagged = v.t >= tlo.t if has_t else z3.BoolVal(False)
                nullable = v.t >= nlo.t if has_n else z3.BoolVal(False)
                want = z3.BoolVal(False) if prim in never else z3.Or(z3.And(tagged, ign.t, z3.BoolVal(default is None)), nullable,
                                                                       z3.BoolVal(prim is P.Primitive.datetime_i64 and default == "-1"))
                path_obligation(res3, ctx, f"{res3.unit}/{prim.name}/default={default}",
                                tobool(it.truth_term(o.value)) == want if o.kind == "return" else z3.BoolVal(False),
                                expected="nullable iff declared nullable, or ignorable tagged without default, or -1-default timestamp; never for types "
                                         "without a null encoding (numbers, bool, error code, durations)",
                                got=repr(o)[:100])
                collect(res3, ctx)
            explore_unit(res3, run3)
    out.append(common.summarise(res3, [common.function_record(P.PrimitiveField.is_nullable)]))
    # ---- filter_version_fields, message_class_vars, _entity_type_line
    res4 = Result("C16/core/emission-helpers")

    def run4(ctx):
        v = SInt(ctx.int_const("version", 0))
        los = [SInt(ctx.int_const(f"low{i}", 0)) for i in range(3)]
        flds = [SRec(P._BaseField, {"versions": VersionRange(lo, INF), "name": f"f{i}"}) for i, lo in enumerate(los)]
        it = make_interp(ctx, reg, inline=inline)
        o = run_body(it, G.filter_version_fields, [v, flds])
        try:
            got = list(it.iterate(o.value)) if o.kind == "return" and not isinstance(o.value, list) else o.value
        except Exception:       # noqa: BLE001
            got = None
        want = [z3.simplify(v.t >= lo.t) for lo in los]
        ok = got is not None
        conds = []
        if ok:
            for fl, w in zip(flds, want):
                present = any(g is fl for g in got)
                conds.append(w if present else z3.Not(w))
            order = [flds.index(g) for g in got if g in flds]
            conds.append(z3.BoolVal(order == sorted(order) and len(order) == len(got)))
        path_obligation(res4, ctx, f"{res4.unit}/filter_version_fields", z3.And(*conds) if ok else z3.BoolVal(False),
                        expected="exactly the fields whose versions match, in order", got=repr(o)[:100])
        collect(res4, ctx)
    explore_unit(res4, run4)
    for kind, cls in (("request", P.MessageSchema), ("response", P.MessageSchema), ("header", P.HeaderSchema), ("data", P.DataSchema)):
        def run5(ctx, kind=kind, cls=cls):
            key = SInt(ctx.int_const("apiKey", -(2 ** 15), 2 ** 15 - 1))
            schema = SRec(cls, {"type": kind, "apiKey": key})
            it = make_interp(ctx, reg, inline=inline)
            o = run_body(it, G.message_class_vars, [schema])
            lines = list(it.iterate(o.value)) if o.kind == "return" and o.value is not None else []
            if kind in ("request", "response"):
                H = "RequestHeader" if kind == "request" else "ResponseHeader"
                ok = len(lines) == 2 and lines[1] == f"    __header_schema__: ClassVar[type[{H}]] = {H}\n"
                # the api-key line is an f-string over the symbolic key: check its text on a concrete instance
                o3 = run_body(it, G.message_class_vars, [SRec(cls, {"type": kind, "apiKey": 42})])
                l3 = list(it.iterate(o3.value)) if o3.kind == "return" else []
                ok = ok and l3[:1] == ["    __api_key__: ClassVar[i16] = i16(42)\n"]
            else:
                ok = lines == []
            path_obligation(res4, ctx, f"{res4.unit}/message_class_vars/{kind}", z3.BoolVal(ok), got=repr(lines)[:200])
            for top in (True, False):
                o2 = run_body(it, G._entity_type_line, [schema, top])
                want = f"    __type__: ClassVar = EntityType.{kind if top else 'nested'}\n"
                path_obligation(res4, ctx, f"{res4.unit}/_entity_type_line/{kind}/{top}", z3.BoolVal(o2.kind == "return" and o2.value == want),
                                got=repr(o2)[:100])
            collect(res4, ctx)
        explore_unit(res4, run5)
    out.append(common.summarise(res4, [common.function_record(G.filter_version_fields), common.function_record(G.message_class_vars),
                                       common.function_record(G._entity_type_line)]))
    return out


def run_unit(spec):
    return symbolic_core()


# ------------------------------------------------------------------------------ bounded part
def build_scratch(defs):
    root = tempfile.mkdtemp(prefix="kvc_c16_")
    shutil.copytree(os.path.join(boot.REPO, "codegen"), os.path.join(root, "codegen"), ignore=shutil.ignore_patterns("__pycache__"))
    shutil.copytree(os.path.join(boot.REPO, "src", "kio"), os.path.join(root, "src", "kio"),
                    ignore=lambda d, names: [n for n in names if n == "__pycache__" or (os.path.basename(d) == "kio" and n == "schema")])
    sch = os.path.join(root, "src", "kio", "schema")
    os.makedirs(sch)
    open(os.path.join(sch, "__init__.py"), "w").close()
    shutil.copy(os.path.join(boot.REPO, "src", "kio", "schema", "errors.py"), os.path.join(sch, "errors.py"))
    os.makedirs(os.path.join(root, "tests"), exist_ok=True)
    sys.path.insert(0, boot.REPO)
    from codegen import build_tag
    ddir = os.path.join(root, "schema", build_tag)
    os.makedirs(ddir)
    for d in defs:
        with open(os.path.join(ddir, d["name"] + ".json"), "w") as fh:
            fh.write("// synthetic definition\n")
            json.dump(d, fh, indent=1)
    return root


def to_py(nv):
    if isinstance(nv, dict):
        if "bytes" in nv:
            return bytes.fromhex(nv["bytes"])
        if "uuid" in nv:
            return uuid.UUID(nv["uuid"])
        if "td_ms" in nv:
            return datetime.timedelta(milliseconds=nv["td_ms"])
        if "ts_ms" in nv:
            return datetime.datetime(1970, 1, 1, tzinfo=datetime.timezone.utc) + datetime.timedelta(milliseconds=nv["ts_ms"])
        if "float" in nv:
            return nv["float"]
        if "enum" in nv:
            return nv["enum"]
    return nv


def encode_expected(fields, values, flexible, request_header=False):
    """independent definition-driven encoder over the neutral sample values"""
    from spec import kafka
    from spec.schema_spec import primitive_desc
    out = b""

    def enc_field(e, val):
        if e["kind"] == "struct":
            def one(v):
                return encode_expected(e["fields"], v["fields"], flexible)
            if e["array"]:
                if val is None:
                    return b"\x00" if flexible else b"\xff\xff\xff\xff"
                head = kafka.concrete(("uv",), len(val) + 1) if flexible else kafka.concrete(("be", 4, True), len(val))
                return head + b"".join(one(v) for v in val)
            if e["nullable"] and e["tag"] is None:
                return b"\xff" if val is None else b"\x01" + one(val)
            return one(val)
        if request_header and e["name"] == "client_id":
            return kafka.concrete(("nlstr",), to_py(val))
        d = primitive_desc(e["type"], flexible, (e["nullable"] or (e["type"] == "datetime_i64" and e["default"] is None)) and e["tag"] is None)
        if e["array"]:
            if val is None:
                return b"\x00" if flexible else b"\xff\xff\xff\xff"
            d = primitive_desc(e["type"], flexible, False)
            head = kafka.concrete(("uv",), len(val) + 1) if flexible else kafka.concrete(("be", 4, True), len(val))
            return head + b"".join(kafka.concrete(d, to_py(v)) for v in val)
        return kafka.concrete(d, to_py(val))
    for e in fields:
        if e["tag"] is None:
            out += enc_field(e, values[e["name"]])
    if flexible:
        entries = []
        for e in sorted((e for e in fields if e["tag"] is not None), key=lambda e: e["tag"]):
            if is_default_value(e, values[e["name"]]):
                continue        # KIP-482: a tagged field at its default value is not sent
            p = enc_field(e, values[e["name"]])
            entries.append(kafka.concrete(("uv",), e["tag"]) + kafka.concrete(("uv",), len(p)) + p)
        out += kafka.concrete(("uv",), len(entries)) + b"".join(entries)
    return out


def is_default_value(e, val):
    """is the neutral sample value the field's default: the definition's explicit one, else the type's zero value"""
    if e["kind"] != "primitive" or e["array"]:
        return False
    d = e["default"]
    if d == "<absent>":
        d = {"bool": False, "float64": 0.0, "error_code": 0, "timedelta_i32": ("ms", 0), "timedelta_i64": ("ms", 0),
             "string": "", "bytes": b"", "records": None, "uuid": None, "datetime_i64": None}.get(e["type"], 0)
    if isinstance(d, tuple) and d[0] == "raw":
        return False
    if isinstance(d, tuple) and d[0] == "ms":
        return isinstance(val, dict) and val.get("td_ms") == d[1]
    if isinstance(val, dict):
        if "enum" in val:
            return val["enum"] == d
        if "float" in val:
            return val["float"] == d
        if "bytes" in val:
            return bytes.fromhex(val["bytes"]) == d
        return False
    return type(val) is type(d) and val == d


def encode_expected_defaults(fields, values, flexible, request_header=False):
    """the default-valued instance: untagged fields as for any instance; a tagged field left at its default is elided -
    so the tagged section holds only the tagged fields the instance was given explicitly (none here)"""
    from spec import kafka
    untagged = [e for e in fields if e["tag"] is None]
    body = encode_expected(untagged, values, False, request_header) if not flexible else encode_expected(untagged, values, True, request_header)[:-1]
    if flexible:
        given = [e for e in fields if e["tag"] is not None and e["default"] == "<absent>" and not e["ignorable"] and not e["array"]
                 and e["kind"] == "primitive"]
        if given:
            return None         # a required tagged field: covered by the populated sample
        # type discipline of the defaults: a non-nullable struct must not default to None
        for e in fields:
            if e["tag"] is not None and e["kind"] == "struct" and not e["array"] and not e["ignorable"] and values.get(e["name"]) is None:
                raise TypeError(f"tagged struct field {e['name']} defaults to None although it is not nullable")
        return body + kafka.concrete(("uv",), 0)
    return body


def compare_struct(fail, pre, exp_fields, got, d_name):
    gf = got["fields"]
    names_e, names_g = [e["name"] for e in exp_fields], [g["name"] for g in gf]
    if names_e != names_g:
        fail(f"{pre}/fields-exactly-the-definitions-fields-in-order", names_e, names_g)
        return
    for e, g in zip(exp_fields, gf):
        fp = f"{pre}.{e['name']}"
        if e["array"] != g["array"] or (e["kind"] == "struct") != g["struct"]:
            fail(f"{fp}/shape", (e["array"], e["kind"]), (g["array"], g["struct"]))
            continue
        if e["tag"] != g["tag"]:
            fail(f"{fp}/tag", e["tag"], g["tag"])
        if e["kind"] == "primitive" and g["kafka_type"] != e["type"]:
            fail(f"{fp}/kafka-type", e["type"], g["kafka_type"])
        # nullability as the definition states it (kio conventions: uuid is always optional; an ignorable tagged
        # field without default and a -1-default timestamp are optional)
        conv = e["kind"] == "primitive" and not e["array"] and (e["type"] == "uuid" or (e["type"] == "datetime_i64" and e["default"] is None)
                                                                or (e["tag"] is not None and e["ignorable"] and e["default"] == "<absent>"
                                                                    and e["type"] in ("string", "bytes", "records", "uuid", "datetime_i64")))
        want_null = e["nullable"] or conv
        got_null = g["nullable"]
        if want_null != got_null:
            fail(f"{fp}/nullability", want_null, got_null, wclass="nullableVersions of a primitive array field" if e["array"] and e["kind"] == "primitive" and want_null and not got_null else None)
        if e["default"] != "<absent>" and not e["array"]:
            gd = g["default"]
            ed = e["default"]
            if isinstance(ed, tuple) and ed[0] == "ms":
                ed = {"td_ms": ed[1]}
            if isinstance(ed, float):
                ed = {"float": ed}
            if isinstance(gd, dict) and "enum" in gd:
                gd = gd["enum"]
            if not (isinstance(ed, tuple) and ed[0] == "raw") and gd != ed:
                fail(f"{fp}/default", ed, gd)
        if e["default"] == "<absent>" and g["default"] != "<absent>" and not (e["kind"] == "struct" and not e["array"]):
            # the definition states no default: a generated one must be the definition's IMPLICIT default for the type
            # (protocol guide: 0 / false / "" / empty array, null for a nullable field) - anything else is invented
            if e["array"]:
                implicit = [[], None] if want_null else [[]]
            elif want_null:
                implicit = [None]
            else:
                implicit = [{"bool": False, "float64": {"float": 0.0}, "error_code": {"enum": 0}, "timedelta_i32": {"td_ms": 0},
                             "timedelta_i64": {"td_ms": 0}, "string": "", "bytes": {"bytes": ""}, "records": None, "uuid": None}.get(e["type"], 0)]
            if g["default"] not in implicit:
                fail(f"{fp}/default-where-the-definition-states-none", f"no default, or the implicit one {implicit}", g["default"])
        if e["kind"] == "primitive" and not e["array"] and e["tag"] is not None and e["ignorable"] and e["default"] == "<absent>" \
                and not want_null:
            # an ignorable tagged field of a type without null: implicit default = the type's zero value
            zero = {"bool": False, "float64": {"float": 0.0}, "error_code": {"enum": 0}, "timedelta_i32": {"td_ms": 0},
                    "timedelta_i64": {"td_ms": 0}}.get(e["type"], 0)
            if g["default"] != zero:
                fail(f"{fp}/implicit-default-of-ignorable-tagged-field", zero, g["default"])
        if e["kind"] == "struct" and not e["array"] and e["tag"] is not None:
            members = e["fields"]
            all_defaults = members and all(m["kind"] == "primitive" and not m["array"] and m["default"] != "<absent>" for m in members)
            if all_defaults:
                # a tagged struct whose members all have defaults defaults to the all-defaults instance (elided on the wire)
                gd = g["default"]
                ok = isinstance(gd, dict) and gd.get("struct") == e["struct_name"]
                if not ok:
                    fail(f"{fp}/tagged-struct-default", f"{e['struct_name']}() (all members at their defaults)", gd)
        if e["kind"] == "struct":
            if g["fields"]["class"] != e["struct_name"]:
                fail(f"{fp}/struct-class-name", e["struct_name"], g["fields"]["class"])
            compare_struct(fail, fp, e["fields"], g["fields"], d_name)


def bounded(rep, tier):
    seed = int(os.environ.get("VERIF_SEED", "0") or 0)
    defs = D.definitions(tier, seed) + D.FIXED
    root = build_scratch(defs)
    fails = []
    n_eval = 0

    def fail(key, expected, observed, wclass=None):
        # capped per witness class: witnesses of a known finding must never crowd out a different failure
        if sum(1 for f in fails if f["witness_class"] == wclass) < (12 if wclass else 60):
            fails.append({"key": key, "expected": repr(expected)[:300], "observed": repr(observed)[:300], "witness_class": wclass})
    try:
        env = dict(os.environ, PYTHONPATH=os.pathsep.join([os.path.join(root, "src"), root, os.path.dirname(os.path.dirname(os.path.abspath(__file__)))]))
        env.pop("KIO_REPO", None)
        p = subprocess.run([sys.executable, os.path.join(os.path.dirname(os.path.abspath(__file__)), "c16_driver.py")], cwd=root, env=env,
                           capture_output=True, text=True, timeout=900)
        line = [ln for ln in p.stdout.splitlines() if ln.startswith("C16-RESULT ")]
        if p.returncode != 0 or not line:
            fail("generator-runs-on-well-formed-definitions", "exit 0", f"exit {p.returncode}: ..." + (p.stderr or p.stdout)[-270:])
            return 1, fails, defs
        result = json.loads(line[-1][len("C16-RESULT "):])
        expected_modules = {}
        for d in defs:
            lo, hi = D.parse_range(d["validVersions"])
            for v in range(lo, hi + 1):
                expected_modules[f"kio.schema.{D.api_name(d)}.v{v}.{d['type']}"] = (d, v)
        got_modules = set(result["modules"])
        if got_modules != set(expected_modules):
            fail("one-module-per-declared-version", sorted(set(expected_modules) - got_modules)[:5], sorted(got_modules - set(expected_modules))[:5])
        for modname, (d, v) in sorted(expected_modules.items()):
            n_eval += 1
            g = result["modules"].get(modname)
            pre = f"{d['name']}.v{v}"
            if g is None:
                continue
            if "import_error" in g:
                fail(f"{pre}/module-imports", "importable", g["import_error"])
                continue
            exp = D.expected_module(d, v)
            if g.get("top") != [d["name"]]:
                fail(f"{pre}/top-level-class", [d["name"]], g.get("top"))
                continue
            ds = g["describe"]
            for k, ek in (("version", "version"), ("flexible", "flexible"), ("type", "type")):
                if ds[k] != exp[ek]:
                    fail(f"{pre}/class-var/{k}", exp[ek], ds[k])
            if "api_key" in exp:
                if ds["api_key"] != exp["api_key"]:
                    fail(f"{pre}/api-key", exp["api_key"], ds["api_key"])
                want_h = f"kio.schema.{d['type']}_header.v{exp['header_version']}.header"
                if ds["header"] != want_h:
                    fail(f"{pre}/header-schema", want_h, ds["header"])
            if not (ds["params"]["frozen"] and ds["params"]["eq"]) or ds["slots"] != [f["name"] for f in ds["fields"]]:
                fail(f"{pre}/dataclass-options", "frozen, eq, slots", (ds["params"], ds["slots"]))
            nf = len(fails)
            compare_struct(fail, pre, exp["fields"], ds, d["name"])
            # one class per structure visible in this version
            def struct_names(fields):
                out = set()
                for e in fields:
                    if e["kind"] == "struct":
                        out.add(e["struct_name"])
                        out |= struct_names(e["fields"])
                return out
            want_classes = sorted({d["name"]} | struct_names(exp["fields"]))
            if sorted(g["classes"]) != want_classes:
                fail(f"{pre}/one-class-per-visible-structure", want_classes, sorted(g["classes"]))
            if "sample_default_error" in g:
                fail(f"{pre}/default-instance-encodes", "encodes", g["sample_default_error"])
            elif len(fails) == nf and "sample_default" in g:
                try:
                    vals = g["sample_default"]["value"]["fields"]
                    want_bytes = encode_expected_defaults(exp["fields"], vals, exp["flexible"], d["name"] == "RequestHeader")
                    if want_bytes is not None and want_bytes.hex() != g["sample_default"]["bytes"]:
                        fail(f"{pre}/default-instance-bytes", want_bytes.hex()[:200], g["sample_default"]["bytes"][:200])
                    if not g["sample_default"]["roundtrip"]:
                        fail(f"{pre}/default-instance-roundtrip", True, False)
                except Exception as ex:       # noqa: BLE001
                    fail(f"{pre}/default-instance-well-typed", "every defaulted field holds a value of its declared type", repr(ex))
            if "sample_error" in g:
                fail(f"{pre}/instances-encode", "encodes", g["sample_error"])
            elif len(fails) == nf and "sample" in g:
                if not g["sample"]["roundtrip"]:
                    fail(f"{pre}/sample-roundtrip", True, False)
                try:
                    want_bytes = encode_expected(exp["fields"], g["sample"]["value"]["fields"], exp["flexible"], d["name"] == "RequestHeader")
                    if want_bytes.hex() != g["sample"]["bytes"]:
                        fail(f"{pre}/bytes-as-the-definition-prescribes", want_bytes.hex()[:200], g["sample"]["bytes"][:200])
                except Exception as ex:       # noqa: BLE001
                    fail(f"{pre}/independent-encoder", "encodes", repr(ex))
        # index
        for name, err in sorted((result.get("package_import_errors") or {}).items()):
            fail("generated-package-imports", "imports", f"{name}: {err}")
        if result.get("index_error"):
            fail("index-generation-runs", None, result["index_error"])
        idx = result.get("index", {})
        want_entries = sorted(f"{m}:{d['name']}" for m, (d, v) in expected_modules.items())
        if idx.get("entries") != want_entries:
            fail("index-lists-exactly-the-generated-modules", want_entries[:4], (idx.get("entries") or idx)[:4] if isinstance(idx.get("entries"), list) else idx)
        want_keys = {str(d["apiKey"]): D.api_name(d) for d in defs if "apiKey" in d}
        if idx.get("api_key_map") != want_keys:
            fail("index-api-key-map", want_keys, idx.get("api_key_map"))
    finally:
        shutil.rmtree(root, ignore_errors=True)
    return n_eval, fails, defs


def tables(rep):
    """The generator's finite decision tables, enumerated completely (ground obligations, discharged by evaluating the
    emitted expression text): the type annotation chosen for each primitive, and the default written for a tagged field
    without an explicit default.  Expected values come from tables written here, independent of the generator."""
    import datetime as _dt
    import uuid as _uuid
    import kio.static.primitive as P
    from codegen import generate_schema as G
    from codegen import parser as CP
    from kio.schema.errors import ErrorCode
    ns = {k: getattr(P, k) for k in dir(P) if not k.startswith("_")}
    ns.update({"uuid": _uuid, "ErrorCode": ErrorCode, "datetime": _dt, "str": str, "bytes": bytes, "bool": bool})
    py_type = {"int8": P.i8, "int16": P.i16, "int32": P.i32, "int64": P.i64, "uint16": P.u16, "uint32": P.u32, "uint64": P.u64,
               "float64": P.f64, "string": str, "bytes": bytes, "records": P.Records, "uuid": _uuid.UUID, "bool": bool,
               "error_code": ErrorCode, "timedelta_i32": P.i32Timedelta, "timedelta_i64": P.i64Timedelta, "datetime_i64": P.TZAware}
    # wire-level null exists only for these; every other type gets its zero value as implicit default of a tagged field
    has_null = {"string", "bytes", "records", "uuid", "datetime_i64"}
    zero = {"int8": 0, "int16": 0, "int32": 0, "int64": 0, "uint16": 0, "uint32": 0, "uint64": 0, "float64": 0.0, "bool": False,
            "error_code": ErrorCode.none, "timedelta_i32": _dt.timedelta(0), "timedelta_i64": _dt.timedelta(0)}
    members = list(CP.Primitive)
    rep.add_ground("C16/tables/primitive-enum-is-the-17-kafka-types", sorted(m.value for m in members) == sorted(py_type),
                   sorted(m.value for m in members))
    for m in members:
        want_t = py_type.get(m.value)
        for optional in (False, True):
            name = f"C16/tables/get_type_hint/{m.value}/{'optional' if optional else 'required'}"
            try:
                text = m.get_type_hint(optional=optional)
                got = eval(text, dict(ns))      # noqa: S307 - text emitted by the generator under verification
                want = (want_t | None) if (optional or m.value == "uuid") else want_t
                rep.add_ground(name, want_t is not None and got == want, f"{text!r} -> {got!r}, expected {want!r}",
                               witness={"primitive": m.value, "optional": optional, "emitted": text})
            except Exception as ex:       # noqa: BLE001
                rep.add_ground(name, False, repr(ex), witness={"primitive": m.value, "optional": optional})
        name = f"C16/tables/_format_default_for_tagged/{m.value}"
        try:
            text = G._format_default_for_tagged(m)
            got = eval(text, dict(ns))          # noqa: S307
            if m.value in has_null:
                ok = got is None
                want = None
            else:
                want = zero[m.value]
                ok = got == want and type(got) is type(want) and isinstance(got, want_t) and (m.value != "float64" or str(got) == "0.0")
                # the constructor named in the text is the field's own type (phantom constructors return plain values, so
                # the value alone cannot tell i8(0) from u16(0))
                import ast as _ast
                node = _ast.parse(text, mode="eval").body
                if isinstance(node, _ast.Call):
                    f = node.func
                    while isinstance(f, _ast.Attribute) and f.attr == "parse":
                        f = f.value
                    ctor = eval(compile(_ast.Expression(f), "<emitted>", "eval"), dict(ns))      # noqa: S307
                    ok = ok and ctor is want_t
            rep.add_ground(name, ok, f"{text!r} -> {got!r}, expected {want!r}", witness={"primitive": m.value, "emitted": text})
        except Exception as ex:           # noqa: BLE001
            rep.add_ground(name, False, repr(ex), witness={"primitive": m.value})
    for label, ft in (("primitive-array", CP.PrimitiveArrayType(CP.Primitive.int32)), ("entity", CP.EntityType("Thing")),
                      ("common-struct", None)):
        name = f"C16/tables/_format_default_for_tagged/{label}"
        try:
            if ft is None:
                import inspect
                params = list(inspect.signature(CP.CommonStructType).parameters)
                ft = CP.CommonStructType(*[None] * len(params))
            text = G._format_default_for_tagged(ft)
            rep.add_ground(name, text == "None", f"{text!r}, expected 'None'", witness={"kind": label, "emitted": text})
        except Exception as ex:           # noqa: BLE001
            rep.add_ground(name, False, repr(ex), witness={"kind": label})
    rep.add_units([{"unit": "C16/tables", "paths": 0, "time": 0.0, "obligations": [], "undecided": [], "effects": [],
                    "functions": [dict(common.function_record(fn), role="finite decision table, enumerated completely (ground obligations)")
                                  for fn in (CP.Primitive.get_type_hint, G._format_default_for_tagged)]}])


def main(tier):
    rep = common.Report("C16", tier, "contracts on the generator's decision functions proved by symbolic execution (z3); emission: "
                        "BOUNDED run-time contract check of the real generator over an enumerated domain of definitions",
                        level="exploration")
    try:
        rep.add_units(common.run_units("checks.c16", ["core"]))
    except Exception as ex:       # noqa: BLE001
        rep.add_ground("C16/core-runs", False, repr(ex))
    try:
        tables(rep)
    except Exception as ex:       # noqa: BLE001
        rep.add_ground("C16/tables-run", False, repr(ex))
    n, fails, defs = bounded(rep, tier)
    nver = sum(D.parse_range(d["validVersions"])[1] - D.parse_range(d["validVersions"])[0] + 1 for d in defs)
    rep.add_bounded("bounded/generator-on-enumerated-definitions",
                    f"{len(defs)} definitions / {nver} (definition, version) pairs: 13 primitives + error-code/timedelta/timestamp names, "
                    "primitive/struct/common-struct arrays, nesting <= 2, version ranges N / N-M / N+, nullableVersions, taggedVersions, "
                    "defaults (decimal, hex, true/false, null, string, -1 time), flexibleVersions none / N+, request/response/header/data, "
                    "builtin-colliding and acronym names; seeded by VERIF_SEED", n, fails, nontrivial=nver)
    rep.extra.update({"evaluations": n, "distinct_nontrivial": nver,
                      "rule": "one evaluation = one (definition, version) module generated by the real generator, imported, described "
                              "and compared field by field + one populated instance encoded and compared byte for byte; distinct = "
                              "distinct (definition, version) pairs", "definitions": len(defs),
                      "samples": [{"definition": defs[0]["name"], "fields": [f["name"] + ":" + f["type"] for f in defs[0]["fields"]][:8]}]})
    rep.assumptions += [
        "BOUNDED: the emission of Python source is string templating whose meaning is the semantics of the emitted text; it is checked on "
        "an enumerated domain, not proved. Only the decision functions listed under functions_under_contract are proved.",
        "kio conventions taken as part of the expected model: uuid fields are always Optional; ignorable tagged fields without default and "
        "timestamps with default -1 are Optional; *Ms fields named in the generator's tables become timedelta/TZAware",
        "the error-code table (needs the Java tester) is copied from the shipped package, not generated",
    ]
    return rep.finish("./vf check C16 --tier " + tier)


if __name__ == "__main__":
    sys.exit(main(sys.argv[1] if len(sys.argv) > 1 else "quick"))
