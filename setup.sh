#!/bin/sh
# Build the offline tooling venv for the checks (Python 3.12 = the interpreter the repo runs on).
set -e
cd "$(dirname "$0")"
if [ ! -x .venv/bin/python ] || ! .venv/bin/python -c "import z3, cvc5, jsonschema" 2>/dev/null; then
  rm -rf .venv
  /venv/bin/python -m venv .venv
  PIP_NO_INDEX=1 .venv/bin/python -m pip install -q --no-index --find-links /opt/veriftools/wheels z3-solver cvc5 jsonschema >/dev/null
  SP=$(.venv/bin/python -c "import sysconfig; print(sysconfig.get_paths()['purelib'])")
  # repo third-party deps (crc32c, pydantic<2, hypothesis) come from the repo's own venv
  echo "import site; site.addsitedir('/venv/lib/python3.12/site-packages')" > "$SP/zz_repo_deps.pth"
fi
.venv/bin/python -c "import z3, cvc5, jsonschema, crc32c; print('setup ok', z3.get_version_string())"
