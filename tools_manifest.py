"""Regenerates MANIFEST.json from the table below (kept valid at all times)."""
import json
import os

HERE = os.path.dirname(os.path.abspath(__file__))
TB = ("Trusted base: the kvc engine's model of the Python subset (kvc/interp.py, kvc/intops.py), the stdlib models "
      "(kvc/models.py: struct, io, UTF-8 codec, uuid, enum, datetime integer arithmetic, dataclasses) validated against "
      "CPython on every run, the spec functions of spec/kafka.py and spec/schema_spec.py, z3/cvc5.")
CHECKS = {
 "C01": ("proof", "For every one of the 1629 classes the real read_entity body, run on what the real write_entity body emitted plus an arbitrary tail, returns the instance and leaves exactly the tail - proved for symbolic field values (all combinations, unbounded lengths) with callees used through their contracts; the leaf (writer, reader) pairs are proved directly from their two bodies (inlined); array loops by an inductive generic-iteration rule.",
         "3, 4/C01", TB + " The three float-based time writers (write_timedelta_i32, write_datetime_i64, write_nullable_datetime_i64) are proved under the standard model of IEEE-754 binary64 rounding (kvc/fpmodel.py: machine arithmetic treated as bounded-error real arithmetic, an assumption); a native grid runs alongside as validation of that assumption."),
 "C02": ("proof", "For every class: the bytes appended by the real write_entity body equal E_T(x), an independent spec derived from the declared schema and the protocol rules, for all symbolic instances; every leaf writer is proved against the Kafka spec function of its type; the get_writer table is checked row by row.",
         "3, 4/C02", TB + " The three float-based time writers (write_timedelta_i32, write_datetime_i64, write_nullable_datetime_i64) are proved under the standard model of IEEE-754 binary64 rounding (kvc/fpmodel.py: machine arithmetic treated as bounded-error real arithmetic, an assumption); a native grid runs alongside as validation of that assumption."),
 "C03": ("proof", "For every class: the real read_entity body on every conforming encoding - canonical fields, tagged fields present (also with default or explicit null) or absent, and runs of arbitrarily many unknown tagged fields (inductive step obligation) - returns exactly the wire values and consumes exactly the encoding.",
         "4/C03", TB),
 "C05": ("proof", "Wire-first: for every class, decoding E_T(x) yields x (match clause), x is in the writer's domain, and the writer emits E_T(x) again; results on arbitrary accepted input lie in the writer's domain (general clause of C10).",
         "4/C05", TB + " The three float-based time writers (write_timedelta_i32, write_datetime_i64, write_nullable_datetime_i64) are proved under the standard model of IEEE-754 binary64 rounding (kvc/fpmodel.py: machine arithmetic treated as bounded-error real arithmetic, an assumption); a native grid runs alongside as validation of that assumption."),
 "C06": ("proof", "For every class and every symbolic cut position: the real read_entity body on the strict prefix raises BufferUnderflow (truncation clause), composed from the truncation clauses of all leaf readers and the array loop rule (array factories verified for the abstract item reader and for every leaf item reader in use).",
         "4/C06", TB + " A native sweep (every strict prefix of one populated instance per class) runs as a labelled bounded stand-in: it proves nothing and is the witness finder for code the engine cannot model."),
 "C07": ("proof", "Interface discipline of every function under contract (all leaf readers/writers, the array closures, write_tagged_field, and write_entity/read_entity of all 1629 classes): the sink is used only through write(bytes), the source only through read(int), no probing of the stream's type; sequencing lemma over the class contracts for two (header, payload) messages back to back with arbitrary leading and trailing bytes, for every payload class.",
         "4/C07", TB + " Assumed contract of IO[bytes] and asyncio.StreamWriter.write; a bounded native run over three stream kinds is a stand-in, not proof."),
 "C08": ("proof", "The three header-selection functions are executed symbolically (api key, version, flexibility symbolic) against the Kafka rule; ground: all payload classes carry the header the rule gives, request/response pairs agree, the index mappings are mutually inverse (exhaustive).",
         "4/C08", TB + " Ground obligations are discharged by evaluation."),
 "C09": ("proof", "kio.index lookups executed symbolically over arbitrary keys/names/versions with the real maps as data: exactly the entry or the documented error; ground: every index entry resolves to the class with its coordinates, every module on disk is indexed, keys map one-to-one.",
         "4/C09", TB + " pkgutil.resolve_name trusted."),
 "C16": ("exploration", "BOUNDED with a proved core: the generator's decision functions (version matching, tag / nullability resolution, field filtering, class-variable lines, header choice) are proved by symbolic execution of their real bodies, and its two finite tables (type annotation per primitive, implicit default written for a tagged field) are enumerated completely against independent tables; the emission of modules is checked by running the real generator in a scratch tree on an enumerated domain of definitions and comparing every generated (definition, version) module - field by field and byte by byte for a populated instance - with an independent reading of the definition. Never reported as proved.",
         "4/C16", "Bound: the enumerated definitions (seeded by VERIF_SEED); kio's naming/optional conventions are part of the expected model; the error-code table is copied, not generated. " + TB),
 "C17": ("proof", "Every function of kio.records.writers verified against the magic-2 batch layout for symbolic records (any number of records and headers, arbitrary sizes): derived header fields, lengths, CRC coverage (CRC uninterpreted), zig-zag varints, deltas; the independent-decoder clause is a bounded native run.",
         "4/C17", TB + " crc32c and max() under assumed contracts; preconditions: non-empty records, deltas within int32/int64, sizes within int32."),
 "C18": ("proof", "read_batch verified on every well-formed magic-2 batch (symbolic fields, any number of records, inductive loop rule): header fields as encoded, exact consumption, write-after-read reproduces the bytes (lemma over the reader and writer contracts), wrong magic / checksum mismatch raise ValueError. read_record's real body (float division, datetime.fromtimestamp under the rounding model) is verified on every encoded record - attributes, offset, key, value, headers, exact consumption and the whole-second part of the timestamp discharged; its full timestamp clause is refuted with a replayed counterexample, which is the known finding (record timestamps lose milliseconds); every strict prefix of every well-formed batch raises (BufferUnderflow before the checksummed part without any axiom, ValueError inside it under the explicitly assumed CRC-prefix axiom) and an arbitrary payload with a non-matching CRC raises before anything is parsed - both discharged symbolically; single-bit flips rely on the CRC axiom and are validated natively.",
         "4/C18", TB + " CRC axiom (damaged data changes the CRC) is not a theorem; read_record's timestamp clause fails (known finding D6), so the batch-level timestamp facts are conditional on it; datetime.fromtimestamp(float, UTC) is modelled (round-half-even to a whole microsecond within 1/2 + 2^-33 us), an assumption about CPython validated by the bounded run."),
 "C19": ("proof", "Frame (purity) obligations for every function under contract: no global/nonlocal, no store or mutating call on captured/global objects, temporaries fresh and closed on every path; an injected stream fault at every write/read propagates unchanged; independently built plans are equivalent closures (cache). The thread clause follows by non-interference under stated assumptions - no schedule is explored.",
         "4/C19", TB + " functools.cache and CPython's atomicity of reads of immutable plans are assumed; one bounded native thread run is a stand-in, not proof."),
 "C10": ("proof", "General clause: for every class the real read_entity body on arbitrary bytes raises only SerialError/ValueError/OverflowError classes, never reads beyond the input (source model), every loop has a variant bounded by the unread bytes, and returned values lie in the writer's domain.",
         "4/C10", TB + " Wall-clock time is read as iteration count; memory inside the stream's own read(n) is outside the IO contract."),
 "C11": ("proof", "Every public reader/writer of kio.serial is verified body-by-body against its contract: writers emit exactly the Kafka spec encoding or raise with nothing written; readers satisfy match / null / truncation / general clauses; varint loops unrolled completely with exact integer semantics.",
         "2, 4/C11", TB + " The three float-based time writers (write_timedelta_i32, write_datetime_i64, write_nullable_datetime_i64) are proved under the standard model of IEEE-754 binary64 rounding (kvc/fpmodel.py: machine arithmetic treated as bounded-error real arithmetic, an assumption); a native grid runs alongside as validation of that assumption."),
 "C12": ("proof", "The real PhantomMeta/Phantom methods and every predicate executed symbolically for 19 types x 9 Python kinds of value: isinstance and the constructor agree with the documented closed ranges; nesting and writer-acceptance lemmas.",
         "4/C12", TB + " Aware datetimes modelled as (instant, offset); dt.timestamp() >= 0 <=> instant >= 0 trusted."),
 "C13": ("proof", "Representation invariant WF(T) discharged by evaluation over every class and field (68k ground obligations), each fact read from the module AST and from the live class; reader/writer derivability; acyclic nesting.",
         "4/C13", "Finite domain enumerated completely; the facts are evaluated on the live objects and the source text."),
 "C14": ("proof", "Family invariants over all 666 modules / 186 families discharged by evaluation (AST and live class must agree); exhaustive.",
         "4/C14", "Finite domain enumerated completely."),
 "C15": ("proof", "Class-level immutability invariants for every class and the record classes (exhaustive) + assumed contract of frozen slotted dataclasses => instance-level statement; the assumed contract is validated natively on two instances per class.",
         "4/C15", "Assumes the documented behaviour of @dataclass(frozen=True, slots=True, eq=True); instances well-typed."),
}
TECH = "contract-based deductive verification (sidecar contracts on the real code, VCs by symbolic execution of the real bodies re-read with ast, z3/cvc5)"
NA = {
 "C04": "not applicable: the pinned upstream Kafka 3.9.0 message definitions (input of the generator) are not in the sealed sandbox, so no contract can relate the shipped schema to generate(definitions); see DESIGN.md 4/C04",
}
PENDING = {}


def main():
    props = [json.loads(l)["id"] for l in open(os.path.join(HERE, "properties.jsonl"))]
    m = {"version": 1, "setup_cmd": "./setup.sh",
         "hooks": {"guard": "KIO_VERIF", "enable": "no hooks: contracts are sidecar files under /verif/contracts; closures are reached by introspection",
                   "baseline_off_cmd": "cd /repo && /venv/bin/python -m pytest -ra -q -p no:cacheprovider --timeout=900 --continue-on-collection-errors",
                   "source_commits": [], "add_only": True},
         "engines": [{"name": "kvc", "path": "kvc/", "serves_properties": sorted(CHECKS),
                      "kind_free_text": "verification-condition generator for a Python subset: symbolic execution of the real function bodies (ast re-read on every run) against sidecar contracts; z3 / cvc5"}],
         "checks": [], "not_applicable": [],
         "notes": "Exit codes of every check: 0 held, 1 VIOLATION, 2 undecided (never a violation), 3 checker error. Genuine defects found and repaired are listed in known_findings.json (fixed entries suppress nothing)."}
    for pid in props:
        if pid in CHECKS:
            cat, text, ref, note = CHECKS[pid]
            m["checks"].append({"property_id": pid, "quick_cmd": f"./vf check {pid} --tier quick",
                                "thorough_cmd": f"./vf check {pid} --tier thorough",
                                "evidence_file": f"evidence/{pid}.json", "engine": "kvc",
                                "level_claimed": {"category": cat, "text": text, "design_ref": ref},
                                "level_note": note, "technique": TECH})
        elif pid in NA:
            m["not_applicable"].append({"property_id": pid, "reason": NA[pid]})
        else:
            m["not_applicable"].append({"property_id": pid, "reason": PENDING.get(pid, "check not built yet (work in progress; see DESIGN.md)")})
    json.dump(m, open(os.path.join(HERE, "MANIFEST.json"), "w"), indent=1)


if __name__ == "__main__":
    main()
