"""Contracts for kio.records.writers / readers against the magic-2 batch spec (spec/records_spec.py
gives the same layout concretely; this module gives it symbolically).

Spec encodings added to the codec table:
  ("nb",)    NB(x): sv32(-1) | sv32(|x|) ++ x                    value: bytes | None
  ("rhdr",)  NB(key) ++ NB(value)                                  value: RecordHeader
  ("rec",)   sv32(|body|) ++ body                                  value: RecCtx(record, base_ts, base_offset)
"""
from __future__ import annotations

import z3

from contracts.serial import _bind
from kvc import opaque
from kvc.core import (Enc, Lit, PyRaise, Raw, SBytes, SInt, SOpaque, SOpt, SRec, SSeq, Sym, Undecided, blen, lower,
                      normalise, total_len, zint, equalise, tobool)
from kvc.models import LocalBytesIO, Sink, Source
from spec import kafka

I32 = (-(2 ** 31), 2 ** 31 - 1)


class RecCtx(Sym):
    """a record together with the batch's base timestamp (ms) and base offset"""

    def __init__(self, record, base_ts, base_offset):
        self.record, self.base_ts, self.base_offset = record, base_ts, base_offset

    def rewrap(self, item):
        return RecCtx(item, self.base_ts, self.base_offset)

    def derive(self, seq):
        return derived_records(seq, self.base_ts, self.base_offset)

    @property
    def item(self):
        return self.record


def ms_of(ts):
    """floor(instant / 1 ms) of a symbolic aware datetime"""
    return ts.t / 1000 if isinstance(ts, SOpaque) else z3.IntVal(opaque.dt_us(ts) // 1000)


def install():
    if getattr(kafka, "_records_installed", False):
        return
    base = kafka._unfold

    def _unfold(ctx, seg):
        d = seg.codec
        if d[0] == "nb":
            v = seg.args[0]
            none = kafka._is_none(v)
            if none is not False and (none is True or ctx.decide(none)):
                return [Enc(("sv", 32), -1)]
            v = kafka._some(v)
            ln = v.length() if isinstance(v, SBytes) else len(v)
            return [Enc(("sv", 32), ln if isinstance(ln, int) else lower(zint(ln)))] + list(v.segs if isinstance(v, SBytes) else [Lit(v)])
        if d[0] == "rhdr":
            h = seg.args[0]
            g = (lambda n: h.fields[n]) if isinstance(h, SRec) else (lambda n: getattr(h, n))
            return [Enc(("nb",), g("key")), Enc(("nb",), g("value"))]
        if d[0] == "rec":
            rc = seg.args[0]
            body = record_body(ctx, rc)
            ln = total_len(normalise(body))
            return [Enc(("sv", 32), ln if isinstance(ln, int) else lower(zint(ln)))] + body
        return base(ctx, seg)
    kafka._unfold = _unfold
    bl = kafka.enc_length

    def enc_length(seg):
        d = seg.codec
        if d[0] == "nb":
            v = seg.args[0]
            none = kafka._is_none(v)
            if none is True:
                return 1
            inner = kafka._some(v)
            ln = inner.length() if isinstance(inner, SBytes) else len(inner)
            body = kafka._plus(kafka.uvlen(kafka.zz(ln if isinstance(ln, int) else zint(ln), 32), 10), ln)
            return body if none is False else kafka._ite(none, 1, body)
        return bl(seg)
    kafka.enc_length = enc_length
    bm = kafka.min_len

    def min_len(d):
        if d[0] == "nb":
            return 1
        if d[0] == "rhdr":
            return 2
        if d[0] == "rec":
            return 8
        return bm(d)
    kafka.min_len = min_len
    kafka._records_installed = True


def record_body(ctx, rc):
    r = rc.record
    g = (lambda n: r.fields[n]) if isinstance(r, SRec) else (lambda n: getattr(r, n))
    hs = g("headers")
    nh = hs.n if isinstance(hs, SSeq) else len(hs)
    run = Enc(("run", ("rhdr",)), hs)
    for f in kafka.length_facts(run):
        ctx.assume(f)
    return [Enc(("be", 1, True), g("attributes")),
            Enc(("sv", 64), lower(z3.simplify(ms_of(g("timestamp")) - zint(rc.base_ts)))),
            Enc(("sv", 32), lower(z3.simplify(zint(g("offset")) - zint(rc.base_offset)))),
            Enc(("nb",), g("key")), Enc(("nb",), g("value")),
            Enc(("sv", 32), nh if isinstance(nh, int) else lower(nh)), run]


# ------------------------------------------------------------------------------ generic values
def generic_optbytes(ctx, name):
    c = ctx.bytes_const(name)
    ctx.assume(blen(c) <= 2 ** 31 - 1)
    return SOpt(ctx.bool_const(name + "?none"), SBytes([Raw(c)]))


def generic_header(ctx, name):
    from kio.records.schema import RecordHeader
    return SRec(RecordHeader, {"key": generic_optbytes(ctx, name + ".key"), "value": generic_optbytes(ctx, name + ".value")})


def generic_record(ctx, name):
    from kio.records.schema import Record
    n = ctx.int_const(name + ".headers_n", 0, 2 ** 31 - 1)
    hs = SSeq(n, name + ".headers", lambda k, _n=name: generic_header(ctx, f"{_n}.headers[{k}]"))
    us = ctx.int_const(name + ".timestamp_us", 0, opaque.DT_MAX_US)
    key, value = generic_optbytes(ctx, name + ".key"), generic_optbytes(ctx, name + ".value")
    run = Enc(("run", ("rhdr",)), hs)
    for f in kafka.length_facts(run):
        ctx.assume(f)
    # Dom: a record (key + value + headers) is shorter than 2^31 - 64 bytes, so its body length fits the int32 prefix
    ctx.assume(blen(key.val.segs[0].t) + blen(value.val.segs[0].t) + zint(run.length()) <= 2 ** 31 - 64)
    return SRec(Record, {"attributes": SInt(ctx.int_const(name + ".attributes", -128, 127)),
                         "timestamp": SOpaque(us, "datetime"),
                         "offset": SInt(ctx.int_const(name + ".offset", -(2 ** 63), 2 ** 63 - 1)),
                         "key": key, "value": value, "headers": hs})


def generic_records(ctx, name, base_offset=None, lo=0, base_ts=None):
    """sequence of records whose offset deltas against the base fit in int32 (precondition)"""
    n = ctx.int_const(name + "_n", lo, 2 ** 31 - 1)
    holder = {}

    def mk(k):
        r = generic_record(ctx, f"{name}[{k}]")
        b = base_offset if base_offset is not None else holder.get("first")
        if b is not None:
            d = zint(r.fields["offset"]) - zint(b)
            ctx.assume(z3.And(d >= I32[0], d <= I32[1]))
        if base_ts is not None:
            t = ms_of(r.fields["timestamp"]) - zint(base_ts)
            ctx.assume(z3.And(t >= -(2 ** 63), t <= 2 ** 63 - 1))
        return r
    seq = SSeq(n, name, mk)
    seq.ctx = ctx
    if base_offset is None:
        first = seq.item(0)
        holder["first"] = first.fields["offset"]
    return seq


def rec_requires(ctx, rc):
    """record body shorter than 2^31 bytes, deltas representable"""
    r = rc.record
    d = zint(r.fields["offset"]) - zint(rc.base_offset)
    t = ms_of(r.fields["timestamp"]) - zint(rc.base_ts)
    body = record_body(ctx, rc)
    ln = zint(total_len(normalise(body)))
    return z3.And(d >= I32[0], d <= I32[1], t >= -(2 ** 63), t <= 2 ** 63 - 1, ln <= I32[1])


# ------------------------------------------------------------------------------ writer contracts
def _emit(buffer, segs):
    if not isinstance(buffer, (Sink, LocalBytesIO)):
        import io as _io
        if isinstance(buffer, _io.IOBase):
            # a real long-lived buffer (module-level or captured) handed to a contracted writer: state shared between calls
            from kvc.interp import FrameViolation
            raise FrameViolation(f"FRAME: a records writer is handed a shared {type(buffer).__name__} object (not a buffer of this call)")
        raise Undecided("records contract: buffer argument is not a sink")
    buffer.emit(*segs)


class WriteSignedCompactBytes:
    name = "write_signed_compact_bytes"
    is_writer = True

    def apply(self, interp, args, kwargs):
        buffer, value = _bind(args, kwargs, ("buffer", "value"))
        _emit(buffer, [Enc(("nb",), value)])


class WriteHeader:
    name = "write_header"
    is_writer = True

    def apply(self, interp, args, kwargs):
        buffer, header = _bind(args, kwargs, ("buffer", "header"))
        _emit(buffer, [Enc(("rhdr",), header)])


class WriteRecord:
    name = "write_record"
    is_writer = True

    def apply(self, interp, args, kwargs):
        buffer, record, bts, boff = _bind(args, kwargs, ("buffer", "record", "base_timestamp", "base_offset"))
        rc = RecCtx(record, bts, boff)
        interp.ctx.oblige("pre/write_record", rec_requires(interp.ctx, rc))
        e = Enc(("rec",), rc)
        for f in kafka.length_facts(e):
            interp.ctx.assume(f)
        _emit(buffer, [e])


class WritePreChecksum:
    name = "_write_batch_pre_checksum"
    is_writer = True

    def apply(self, interp, args, kwargs):
        buffer, bo, bl, ple, magic, crc = _bind(args, kwargs, ("buffer", "base_offset", "batch_length",
                                                               "partition_leader_epoch", "magic", "crc"))
        ctx = interp.ctx
        for nm, v, w, s in (("base_offset", bo, 8, True), ("batch_length", bl, 4, True), ("partition_leader_epoch", ple, 4, True),
                            ("magic", magic, 1, True), ("crc", crc, 4, False)):
            lo, hi = kafka.be_range(w, s)
            ctx.oblige(f"pre/_write_batch_pre_checksum/{nm}", z3.And(zint(v) >= lo, zint(v) <= hi))
        _emit(buffer, [Enc(("be", 8, True), bo), Enc(("be", 4, True), bl), Enc(("be", 4, True), ple),
                       Enc(("be", 1, True), magic), Enc(("be", 4, False), crc)])


def post_segs(ctx, attributes, lod, bts, mts, pid, pe, bs, boff, records):
    n = records.n if isinstance(records, SSeq) else len(records)
    seq = records
    run = Enc(("run", ("rec",)), derived_records(records, bts, boff))
    for f in kafka.length_facts(run):
        ctx.assume(f)
    return [Enc(("be", 2, True), attributes), Enc(("be", 4, True), lod), Enc(("be", 8, True), bts), Enc(("be", 8, True), mts),
            Enc(("be", 8, True), pid), Enc(("be", 2, True), pe), Enc(("be", 4, True), bs),
            Enc(("be", 4, True), n if isinstance(n, int) else lower(n)), run]


_derived = {}


def derived_records(records, bts, boff):
    """the sequence k -> RecCtx(records[k], bts, boff); cached so that equal arguments give the
    same sequence object (sequence equality is by identity)"""
    key = (id(records), str(z3.simplify(zint(bts))), str(z3.simplify(zint(boff))))
    if key not in _derived:
        n = records.n if isinstance(records, SSeq) else z3.IntVal(len(records))
        s = SSeq(n, f"recctx({getattr(records, 'name', 'records')})",
                 lambda k, _r=records, _b=bts, _o=boff: RecCtx(_r.item(k) if isinstance(_r, SSeq) else _r[k], _b, _o))
        s.item_desc = ("rec",)
        try:
            object.__setattr__(s, "base_records", records)
        except AttributeError:
            pass
        _derived[key] = (s, records)
    return _derived[key][0]


class WritePostChecksum:
    name = "_write_batch_post_checksum"
    is_writer = True

    def apply(self, interp, args, kwargs):
        names = ("buffer", "attributes", "last_offset_delta", "base_timestamp", "max_timestamp", "producer_id",
                 "producer_epoch", "base_sequence", "base_offset", "records")
        buffer, attributes, lod, bts, mts, pid, pe, bs, boff, records = _bind(args, kwargs, names)
        ctx = interp.ctx
        for nm, v, w in (("attributes", attributes, 2), ("last_offset_delta", lod, 4), ("base_timestamp", bts, 8),
                         ("max_timestamp", mts, 8), ("producer_id", pid, 8), ("producer_epoch", pe, 2), ("base_sequence", bs, 4)):
            lo, hi = kafka.be_range(w, True)
            ctx.oblige(f"pre/_write_batch_post_checksum/{nm}", z3.And(zint(v) >= lo, zint(v) <= hi))
        if isinstance(records, SOpt):
            raise Undecided("optional records")
        _emit(buffer, post_segs(ctx, attributes, lod, bts, mts, pid, pe, bs, boff, records))


def crc_term(ctx, segs):
    """CRC-32C of a byte string given as segments: an uninterpreted value in [0, 2^32) with the
    congruence instances against every CRC taken earlier on this path"""
    reg = ctx.__dict__.setdefault("_crcs", [])
    segs = normalise(segs)
    for c, s in reg:
        if s is segs:
            return c
    c = ctx.int_const(ctx.fresh("crc32c"), 0, 2 ** 32 - 1)
    for c2, s2 in reg:
        try:
            cond = equalise(ctx, list(segs), list(s2))
            if cond is True:
                ctx.assume(c == c2)
            elif cond is not False:
                ctx.assume(z3.Implies(tobool(cond), c == c2))
        except Exception:      # noqa: BLE001
            pass
    reg.append((c, segs))
    return c


def m_crc32c(interp, fr, data, *rest):
    if not isinstance(data, Sym):
        import crc32c
        return crc32c.crc32c(data, *rest)
    if rest:
        raise Undecided("crc32c with an initial value")
    from kvc.core import as_bytes
    return SInt(crc_term(interp.ctx, as_bytes(data)))


def max_ts_term(ctx, records):
    """max over the records' timestamps (ms): >= every element's, equal to some element's"""
    reg = ctx.__dict__.setdefault("_maxts", {})
    if id(records) in reg:
        return reg[id(records)][0]
    m = ctx.int_const(ctx.fresh("max_ts_us"), 0, opaque.DT_MAX_US)
    w = ctx.int_const(ctx.fresh("argmax"), 0)
    ctx.assume(w < records.n)
    ctx.assume(m == records.item(SInt(w)).fields["timestamp"].t)
    reg[id(records)] = (m, records)
    return m


def fold_handler(interp, kind, gen, src_info):
    """max(record.timestamp for record in records) over a symbolic sequence"""
    itv, target, elt = src_info
    import ast
    # max(<item>.timestamp ...) or max(<item>.timestamp.timestamp() ...): the latter is the float of the former's maximum,
    # because datetime.timestamp() is a correctly rounded, hence non-decreasing, function of the instant
    as_float = (isinstance(elt, ast.Call) and not elt.args and not elt.keywords and isinstance(elt.func, ast.Attribute)
                and elt.func.attr == "timestamp")
    inner = elt.func.value if as_float else elt
    if kind != "max" or not isinstance(itv, SSeq) or not (isinstance(inner, ast.Attribute) and inner.attr == "timestamp"
                                                          and isinstance(inner.value, ast.Name)):
        raise Undecided("fold over a symbolic sequence: only max(<item>.timestamp ...) has a contract")
    ctx = interp.ctx
    m = max_ts_term(ctx, itv)
    # instances of `>= every element` for the elements materialised so far
    for key, item in list(itv._cache.items()):
        ctx.assume(item.fields["timestamp"].t <= m)
    if as_float:
        from kvc.dtmodel import SInstantSeconds
        return SInstantSeconds(m)
    return SOpaque(m, "datetime")


class WriteNewBatch:
    """write_new_batch(buffer, new_batch): the magic-2 batch derived from the records"""
    name = "write_new_batch"
    is_writer = True

    def apply(self, interp, args, kwargs):
        buffer, nbt = _bind(args, kwargs, ("buffer", "new_batch"))
        ctx = interp.ctx
        recs = nbt.fields["records"]
        if not ctx.decide(recs.n >= 1):
            raise PyRaise(ValueError)
        first = recs.item(0)
        last = recs.item(lower(recs.n - 1)) if not ctx.entails(recs.n == 1) else first
        boff = first.fields["offset"]
        lod = lower(z3.simplify(zint(last.fields["offset"]) - zint(boff)))
        bts = lower(z3.simplify(ms_of(first.fields["timestamp"])))
        m = max_ts_term(ctx, recs)
        for key, item in list(recs._cache.items()):
            ctx.assume(item.fields["timestamp"].t <= m)
        mts = lower(z3.simplify(m / 1000))
        post = post_segs(ctx, nbt.fields["attributes"], lod, bts, mts, nbt.fields["producer_id"], nbt.fields["producer_epoch"],
                         nbt.fields["base_sequence"], boff, recs)
        plen = zint(total_len(normalise(post)))
        crc = crc_term(ctx, post)
        _emit(buffer, [Enc(("be", 8, True), boff), Enc(("be", 4, True), lower(z3.simplify(plen + 9))),
                       Enc(("be", 4, True), nbt.fields["partition_leader_epoch"]), Lit(b"\x02"),
                       Enc(("be", 4, False), SInt(crc))] + post)


class WritePreparedBatch:
    name = "write_prepared_batch"
    is_writer = True

    def apply(self, interp, args, kwargs):
        buffer, b = _bind(args, kwargs, ("buffer", "batch"))
        f = b.fields
        ctx = interp.ctx
        _emit(buffer, [Enc(("be", 8, True), f["base_offset"]), Enc(("be", 4, True), f["batch_length"]),
                       Enc(("be", 4, True), f["partition_leader_epoch"]), Lit(b"\x02"), Enc(("be", 4, False), f["crc"])]
              + post_segs(ctx, f["attributes"], f["last_offset_delta"], f["base_timestamp"], f["max_timestamp"], f["producer_id"],
                          f["producer_epoch"], f["base_sequence"], f["base_offset"], f["records"]))


class WriteBatch:
    name = "write_batch"
    is_writer = True

    def apply(self, interp, args, kwargs):
        from kio.records.schema import NewRecordBatch, RecordBatch
        buffer, b = _bind(args, kwargs, ("buffer", "batch"))
        if isinstance(b, SRec) and b.cls is RecordBatch:
            return WritePreparedBatch().apply(interp, [buffer, b], {})
        if isinstance(b, SRec) and b.cls is NewRecordBatch:
            return WriteNewBatch().apply(interp, [buffer, b], {})
        raise Undecided("write_batch on a value that is neither batch kind")


def registry():
    """serial registry extended with the records functions"""
    import crc32c
    import kio.records.writers as RW
    from contracts import serial as CS
    install()
    reg = CS.Registry()
    for name, c in (("write_signed_compact_bytes", WriteSignedCompactBytes()), ("write_header", WriteHeader()),
                    ("write_record", WriteRecord()), ("_write_batch_pre_checksum", WritePreChecksum()),
                    ("_write_batch_post_checksum", WritePostChecksum()), ("write_new_batch", WriteNewBatch()),
                    ("write_prepared_batch", WritePreparedBatch()), ("write_batch", WriteBatch())):
        fn = getattr(RW, name, None)
        if fn is None:
            if not name.startswith("_"):
                reg.missing.append(f"kio.records.writers.{name}")
            # a private helper that no longer exists under this name: whatever replaced it is verified inside its
            # callers (their contracts, on the public functions, are what the property rests on)
        else:
            reg.by_id[id(fn)] = (fn, c)
    reg.records_models = {crc32c.crc32c: m_crc32c}
    return reg


# ============================================================================== reader contracts
from contracts.serial import ReaderContract  # noqa: E402


class NbReaderContract(ReaderContract):
    """read_signed_compact_string_as_bytes_nullable: M on NB(x); G: ValueError for a length < -1.
    (It uses a plain buffer.read: a short value is NOT reported here - truncation is detected at
    batch level by the checksum, see C18.)"""

    def __init__(self):
        super().__init__("read_signed_compact_string_as_bytes_nullable", ("nb",), (ValueError,))


class HeaderReaderContract(ReaderContract):
    def __init__(self):
        super().__init__("read_header", ("rhdr",), (ValueError,))


class ReadRecordContract:
    """read_record(buffer, base_timestamp, base_offset): on Rec(r) relative to the bases returns r
    (offset = base + delta, timestamp = base_ts + delta milliseconds) and consumes exactly Rec(r).
    Used at the call site in read_batch.  The real body is verified against it by the unit
    C18/records.readers/read_record/well-formed (checks/c18.py): every clause is discharged except
    the timestamp one, which is refuted with a replayed counterexample - the known finding that the
    millisecond part of the timestamp is dropped."""
    name = "read_record"
    is_reader = True

    def apply(self, interp, args, kwargs):
        src, bts, boff = _bind(args, kwargs, ("buffer", "base_timestamp", "base_offset"))
        ctx = interp.ctx
        for _ in range(4):
            head = src.head()
            if isinstance(head, Enc) and head.codec == ("rec",):
                rc = head.args[0]
                ctx.oblige("read_record/bases-match", z3.And(zint(rc.base_ts) == zint(bts), zint(rc.base_offset) == zint(boff)))
                src.pop_head()
                return rc.record
            if isinstance(head, Enc):
                src.unfold_head()
                continue
            break
        from kvc.core import Mismatch
        raise Mismatch(f"read_record applied to {head!r}")


def reader_registry():
    import kio.records.readers as RR
    reg = registry()
    for name, c in (("read_signed_compact_string_as_bytes_nullable", NbReaderContract()), ("read_header", HeaderReaderContract()),
                    ("read_record", ReadRecordContract())):
        fn = getattr(RR, name, None)
        if fn is None:
            reg.missing.append(f"kio.records.readers.{name}")
        else:
            reg.by_id[id(fn)] = (fn, c)
    return reg


def batch_loop(interp, st, rng, fr):
    """`for _ in range(num_records): record = read_record(...); <check>; records.append(record)`
    over an encoded run of records: induction with the generic iteration as step - the body reads
    exactly record k and appends exactly that record; afterwards the list holds the whole sequence."""
    from kvc import loops
    from kvc.interp import BreakEx, ContinueEx, Frame
    from kvc.core import Mismatch
    ctx = interp.ctx
    srcs = [s_ for s_ in loops._sources(fr) if isinstance(s_[1].head(), Enc) and s_[1].head().codec[0] == "run"]
    if len(srcs) != 1:
        raise Undecided("record loop: cannot identify the source holding the encoded records")
    src = srcs[0][1]
    n = z3.simplify(zint(rng.hi) - zint(rng.lo))
    if not ctx.decide(n > 0):
        interp.block(st.orelse, fr)
        return
    for _ in range(3):
        head = src.head()
        if isinstance(head, Enc) and head.codec[0] == "run":
            break
        if isinstance(head, Enc):
            src.unfold_head()
            continue
        raise Mismatch(f"record loop applied to {head!r}")
    seq = head.args[0]
    if not ctx.entails(n == seq.n):
        raise Mismatch("record count differs from the number of encoded records")
    lists = [(name, v) for name, v in fr.env.items() if isinstance(v, list) and id(v) in interp.fresh_ids]
    if len(lists) != 1 or lists[0][1]:
        raise Undecided("record loop: expected exactly one empty accumulator list")
    lname = lists[0][0]
    k = ctx.int_const(ctx.fresh("k"), 0)
    ctx.assume(k < n)
    item = seq.item(SInt(k))
    tailc = ctx.bytes_const(ctx.fresh("after_record"))
    temp = LocalBytesIO(ctx, [Enc(head.codec[1], item), Raw(tailc)])
    acc = []
    interp.fresh_ids.add(id(acc)); interp._keep(acc)
    sub = Frame(fr.fn, {nm: (temp if v is src else (acc if nm == lname else v)) for nm, v in fr.env.items()})
    sub.globals = fr.globals
    interp.assign(st.target, SInt(k), sub)
    try:
        interp.block(st.body, sub)
    except (BreakEx, ContinueEx):
        raise Undecided("break/continue in the record loop")
    want = getattr(item, "record", item)
    from kvc.core import sym_eq
    ctx.oblige("record-loop/step-appends-exactly-the-record", z3.BoolVal(len(acc) == 1 and acc[0] is want)
               if len(acc) != 1 or acc[0] is want else tobool(sym_eq(acc[0], want, ctx)))
    ctx.oblige("record-loop/step-consumes-exactly-the-record", tobool(equalise(ctx, temp.rest(), [Raw(tailc)])))
    src.pop_head()
    base = getattr(seq, "base_records", None)
    fr.env[lname] = base if base is not None else seq
    interp.block(st.orelse, fr)
