"""Contracts of the per-class closures built by kio.serial.entity_writer / entity_reader.

  write_entity(buffer, entity)   appends Enc(("ent", T), entity) = E_T(entity)   (spec/schema_spec.py)
  write_nullable(buffer, e)      appends Enc(("nent", T), e): marker ff | 01 ++ E_T(e)
  read_entity(buffer)            M/T/G clauses for ("ent", T); read_nullable_entity for ("nent", T)

The class T is read from the closure cell `entity_type` of the real closure.
"""
from __future__ import annotations

from contracts.serial import ReaderContract, WriterContract
from kvc.core import Undecided


def _cells(fn):
    out = {}
    if getattr(fn, "__closure__", None):
        for n, c in zip(fn.__code__.co_freevars, fn.__closure__):
            try:
                out[n] = c.cell_contents
            except ValueError:
                pass
    return out


def _candidate_types(fn, depth=0, seen=None):
    """entity classes reachable through the closure cells of fn (whatever the cells are called)"""
    import dataclasses
    seen = seen if seen is not None else set()
    out = []
    for v in _cells(fn).values():
        if id(v) in seen:
            continue
        seen.add(id(v))
        if isinstance(v, type) and dataclasses.is_dataclass(v) and hasattr(v, "__flexible__"):
            out.append(v)
        elif callable(v) and getattr(v, "__closure__", None) and depth < 2:
            out.extend(_candidate_types(v, depth + 1, seen))
    return out


def plan_callables(fn):
    """The per-field codecs captured by an entity closure, found by SHAPE, not by the names or container types of
    its private variables: any captured dict / tuple / list whose entries pair a field of the class (a
    dataclasses.Field, or its name) with a callable. Whether the entry is a tagged one is read from the field's own
    metadata. Returns ({field name: callable}, {tag: (field name, callable)})."""
    import dataclasses
    regular, tagged = {}, {}
    seen = set()
    ident = identify(fn)
    T = ident[1] if ident else None
    by_name = {f.name: f for f in dataclasses.fields(T)} if T is not None else {}

    def flat(x):
        if isinstance(x, (tuple, list)):
            for y in x:
                yield from flat(y)
        else:
            yield x

    def entry(parts):
        parts = list(parts)
        fns = [p for p in parts if callable(p) and not isinstance(p, type)]
        flds = [p for p in parts if isinstance(p, dataclasses.Field)]
        names = [p for p in parts if isinstance(p, str) and p in by_name]
        if not fns or not (flds or names):
            return
        name = flds[0].name if flds else names[0]
        f = by_name.get(name, flds[0] if flds else None)
        tag = f.metadata.get("tag") if f is not None else None
        if tag is None:
            regular.setdefault(name, fns[0])
        else:
            tagged.setdefault(int(tag), (name, fns[0]))

    def walk(f, depth):
        for v in _cells(f).values():
            if id(v) in seen:
                continue
            seen.add(id(v))
            if isinstance(v, dict) and v:
                for k, val in v.items():
                    entry([k] + list(flat(val)))
            elif isinstance(v, (tuple, list)) and v and all(isinstance(e, (tuple, list)) for e in v):
                for e in v:
                    entry(flat(e))
            elif callable(v) and getattr(v, "__closure__", None) and depth < 2 \
                    and (getattr(v, "__module__", "") or "").startswith("kio.serial._"):
                if identify(v) is None:          # a private helper of the same closure, not a nested entity codec
                    walk(v, depth + 1)
    walk(fn, 0)
    return regular, tagged


_API_INDEX = None


def _api_index():
    global _API_INDEX
    if _API_INDEX is None:
        _API_INDEX = {}
        try:
            from checks import l2
            from kio.serial import entity_reader, entity_writer
            for T in l2.all_entities():
                for kind, api in (("writer", entity_writer), ("reader", entity_reader)):
                    for nullable in (False, True):
                        shapes = [lambda: api(T, nullable), lambda: api(T, nullable=nullable)] + ([lambda: api(T)] if not nullable else [])
                        for call in shapes:
                            try:
                                f = call()
                            except Exception:        # noqa: BLE001
                                continue
                            _API_INDEX.setdefault(id(f), (f, (kind, T, nullable)))
        except Exception:        # noqa: BLE001
            pass
    return _API_INDEX


def identify(fn):
    """(kind, T, nullable) of a closure handed out by the public entity_writer / entity_reader.
    The anchor is the public API, not the private names inside it: fn is recognised when
    entity_writer(T, nullable) / entity_reader(T, nullable) returns this very object for a class T
    found in its closure cells."""
    from kio.serial import entity_reader, entity_writer
    for T in _candidate_types(fn):
        for nullable in (False, True):
            for kind, api in (("writer", entity_writer), ("reader", entity_reader)):
                # functools.cache keys on the call shape: f(T), f(T, False) and f(T, nullable=False) are three entries
                shapes = [lambda: api(T, nullable), lambda: api(T, nullable=nullable)] + ([lambda: api(T)] if not nullable else [])
                for call in shapes:
                    try:
                        if call() is fn:
                            return kind, T, nullable
                    except Exception:        # noqa: BLE001
                        continue
    # the closure does not hold its class in a cell (e.g. everything was precomputed at build time): look it up in a
    # reverse index of what the public API hands out for every entity class, built once per process
    hit = _api_index().get(id(fn))
    if hit is not None and hit[0] is fn:
        return hit[1]
    # fall back on the private names (an API that stopped caching hands out a new object each time)
    q = getattr(fn, "__qualname__", "")
    cells = _cells(fn)
    if q.endswith("write_entity") and "entity_type" in cells:
        return "writer", cells["entity_type"], False
    if q.endswith("read_entity") and "entity_type" in cells:
        return "reader", cells["entity_type"], False
    if q.endswith("write_nullable") and cells.get("write_entity") is not None:
        inner = identify(cells["write_entity"])
        return ("writer", inner[1], True) if inner else None
    if q.endswith("read_nullable_entity") and cells.get("read_entity") is not None:
        inner = identify(cells["read_entity"])
        return ("reader", inner[1], True) if inner else None
    return None


def entity_type_of(fn):
    r = identify(fn)
    return r[1] if r else None


class EntityWriterContract(WriterContract):
    def __init__(self, T, nullable):
        self.T = T
        d = ("nent", T) if nullable else ("ent", T)
        super().__init__(f"entity_writer[{T.__module__}.{T.__qualname__}{',nullable' if nullable else ''}]", d, [d],
                         param="entity")

    def error(self, ctx, value):
        return None


class EntityReaderContract(ReaderContract):
    def __init__(self, T, nullable):
        from kio.serial.errors import OutOfBoundValue, UnexpectedNull
        self.T = T
        d = ("nent", T) if nullable else ("ent", T)
        super().__init__(f"entity_reader[{T.__module__}.{T.__qualname__}{',nullable' if nullable else ''}]", d,
                         (ValueError, UnexpectedNull, OutOfBoundValue, OverflowError, UnicodeDecodeError))


_cache = {}


def extra_lookup(fn, reg):
    """Registry.extra hook: closures from kio.serial._serialize / _parse"""
    mod = getattr(fn, "__module__", "") or ""
    if not mod.startswith("kio.serial") or not getattr(fn, "__closure__", None):
        return None
    key = id(fn)
    if key in _cache and _cache[key][0] is fn:
        return _cache[key][1]
    r = identify(fn)
    if r is None:
        _cache[key] = (fn, None)
        return None
    kind, T, nullable = r
    c = EntityWriterContract(T, nullable) if kind == "writer" else EntityReaderContract(T, nullable)
    _cache[key] = (fn, c)
    return c
