"""Contracts of the per-class closures built by kio.serial.entity_writer / entity_reader.

  write_entity(buffer, entity)   appends Enc(("ent", T), entity) = E_T(entity)   (spec/schema_spec.py)
  write_nullable(buffer, e)      appends Enc(("nent", T), e): marker ff | 01 ++ E_T(e)
  read_entity(buffer)            M/T/G clauses for ("ent", T); read_nullable_entity for ("nent", T)

The class T is read from the closure cell `entity_type` of the real closure.
"""
from __future__ import annotations

from contracts.serial import ReaderContract, WriterContract
from kvc.core import Undecided


def _cells(fn):
    out = {}
    if getattr(fn, "__closure__", None):
        for n, c in zip(fn.__code__.co_freevars, fn.__closure__):
            try:
                out[n] = c.cell_contents
            except ValueError:
                pass
    return out


def entity_type_of(fn):
    q = getattr(fn, "__qualname__", "")
    cells = _cells(fn)
    if q.endswith("write_entity") or q.endswith("read_entity"):
        return cells.get("entity_type")
    if q.endswith("write_nullable"):
        inner = cells.get("write_entity")
        return entity_type_of(inner) if inner is not None else None
    if q.endswith("read_nullable_entity"):
        inner = cells.get("read_entity")
        return entity_type_of(inner) if inner is not None else None
    return None


class EntityWriterContract(WriterContract):
    def __init__(self, T, nullable):
        self.T = T
        d = ("nent", T) if nullable else ("ent", T)
        super().__init__(f"entity_writer[{T.__module__}.{T.__qualname__}{',nullable' if nullable else ''}]", d, [d],
                         param="entity")

    def error(self, ctx, value):
        return None


class EntityReaderContract(ReaderContract):
    def __init__(self, T, nullable):
        from kio.serial.errors import OutOfBoundValue, UnexpectedNull
        self.T = T
        d = ("nent", T) if nullable else ("ent", T)
        super().__init__(f"entity_reader[{T.__module__}.{T.__qualname__}{',nullable' if nullable else ''}]", d,
                         (ValueError, UnexpectedNull, OutOfBoundValue, OverflowError, UnicodeDecodeError))


_cache = {}


def extra_lookup(fn, reg):
    """Registry.extra hook: closures from kio.serial._serialize / _parse"""
    mod = getattr(fn, "__module__", "")
    q = getattr(fn, "__qualname__", "")
    if mod not in ("kio.serial._serialize", "kio.serial._parse") or "<locals>" not in q:
        return None
    key = id(fn)
    if key in _cache and _cache[key][0] is fn:
        return _cache[key][1]
    T = entity_type_of(fn)
    if T is None:
        return None
    leaf = q.rsplit(".", 1)[-1]
    if leaf == "write_entity":
        c = EntityWriterContract(T, False)
    elif leaf == "write_nullable":
        c = EntityWriterContract(T, True)
    elif leaf == "read_entity":
        c = EntityReaderContract(T, False)
    elif leaf == "read_nullable_entity":
        c = EntityReaderContract(T, True)
    else:
        return None
    _cache[key] = (fn, c)
    return c
