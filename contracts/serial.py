"""Contracts for kio.serial.readers / kio.serial.writers (sidecar; /repo is not edited).

A WriterContract says, for every argument in the function's typed domain: either the
function raises exactly the listed exception (nothing written), or it appends exactly
`Enc(desc, value)` - the Kafka encoding from spec/kafka.py - to the sink and returns None.

A ReaderContract says, for its descriptor d:
  M (match)   on  Enc(d, v) ++ tail        returns v, leaves tail           for every v in Dom(d)
  N (null)    a non-nullable reader on the null form of d raises UnexpectedNull
  T (trunc)   on every strict prefix of Enc(d, v) raises BufferUnderflow
  G (general) on arbitrary bytes: returns a value of Dom(d)'s Python type, never reads beyond
              the input, raises only the listed exception classes, iterations bounded.

Callers are verified against these clauses (`apply`), never against callee bodies.
"""
from __future__ import annotations

import struct
import z3

from kvc import opaque
from kvc.core import (Byte, Enc, Lit, Mismatch, PyRaise, Raw, SBool, SBytes, SInt, SOpaque, SOpt, SRec, SSeq,
                      SStr, Sym, Undecided, blen, encodable, lower, ulen, zint)
from kvc.models import LocalBytesIO, Sink, Source
from spec import domains, kafka
from spec.kafka import LEN_LIMIT


def _none(v):
    return kafka._is_none(v)


def _bind(args, kwargs, names):
    out = []
    args = list(args)
    for i, n in enumerate(names):
        if i < len(args):
            out.append(args[i])
        elif n in kwargs:
            out.append(kwargs[n])
        else:
            raise PyRaise(TypeError, f"missing argument {n}")
    return out


# ============================================================================== writer contracts
class WriterContract:
    """desc_of(value) -> descriptor (may depend on the Python kind of the value: str vs bytes)"""
    is_writer = True

    def __init__(self, name, desc, kinds, param="value", error=None, requires=None):
        self.name = name
        self._desc = desc
        self.kinds = kinds          # list of descriptors giving the generic argument values
        self.param = param
        self._error = error
        self._requires = requires

    def desc(self, value):
        return self._desc(value) if callable(self._desc) else self._desc

    def requires(self, ctx, value):
        return self._requires(ctx, value) if self._requires else True

    def error(self, ctx, value):
        """exception class the writer must raise for this value, or None (may fork)"""
        return self._error(ctx, value) if self._error else None

    def expect(self, ctx, value):
        exc = self.error(ctx, value)
        if exc is not None:
            return ("raise", exc)
        return ("emit", [Enc(self.desc(value), value)])

    # ---- use at a call site
    def apply(self, interp, args, kwargs):
        buffer, value = _bind(args, kwargs, ("buffer", self.param))
        ctx = interp.ctx
        require_model_buffer(interp, buffer, self.name)
        if not isinstance(buffer, (Sink, LocalBytesIO)):
            raise Undecided(f"{self.name}: buffer argument is not a sink")
        req = self.requires(ctx, value)
        if req is not True:
            ctx.oblige(f"pre/{self.name}", req, callee=self.name)
        if getattr(buffer, "faulty", False):
            if ctx.decide(z3.Bool(ctx.fresh("io_fault"))):
                from kvc.models import IOFault
                raise PyRaise(IOFault)
        exc = self.error(ctx, value)
        if exc is not None:
            raise PyRaise(exc)
        d = self.desc(value)
        if isinstance(value, SOpt) and d[0] not in ("ncstr", "ncbytes", "nlstr", "nlbytes", "nent", "nts", "uuid", "carr", "larr"):
            from kvc.models import resolve_opt
            value = resolve_opt(ctx, value)
        buffer.emit(Enc(d, value))
        return None


def _int_range_error(w, signed):
    lo, hi = kafka.be_range(w, signed)

    def err(ctx, v):
        if isinstance(v, SOpt):
            if ctx.decide(v.is_none):
                return struct.error
            v = v.val
        if not isinstance(v, (int, SInt, SBool)):
            return struct.error
        t = zint(v)
        return None if ctx.decide(z3.And(t >= lo, t <= hi)) else struct.error
    return err


def _strlen(v):
    return ulen(v.t) if isinstance(v, SStr) else (len(v.encode()) if isinstance(v, str) else zint(v.length() if isinstance(v, SBytes) else len(v)))


def _is_str(v):
    return isinstance(v, (str, SStr))


def _enc_error(ctx, v):
    if isinstance(v, SStr) and not ctx.decide(encodable(v.t)):
        return UnicodeEncodeError
    return None


def _compact_error(nullable):
    def err(ctx, v):
        n = _none(v)
        if n is not False and (n is True or ctx.decide(n)):
            return None if nullable else TypeError
        return _enc_error(ctx, kafka._some(v))
    return err


def _legacy_error(nullable, limit):
    from kio.serial.errors import OutOfBoundValue

    def err(ctx, v):
        n = _none(v)
        if n is not False and (n is True or ctx.decide(n)):
            return None if nullable else TypeError
        inner = kafka._some(v)
        e = _enc_error(ctx, inner)
        if e:
            return e
        return None if ctx.decide(zint(_strlen(inner)) <= limit) else OutOfBoundValue
    return err


def _len_requires(ctx, v):
    n = _none(v)
    if n is True:
        return True
    inner = kafka._some(v)
    c = zint(_strlen(inner)) <= LEN_LIMIT - 1
    return c if n is False else z3.Or(n, c)


def _str_or_bytes(nullable, compact):
    def desc(v):
        inner = kafka._some(v)
        base = ("cstr" if compact else "lstr") if _is_str(inner) or inner is None else ("cbytes" if compact else "lbytes")
        return (("n" + base) if nullable else base,)
    return desc


def writer_contracts():
    """name -> WriterContract for the module-level functions of kio.serial.writers"""
    from kio.serial.errors import OutOfBoundValue
    C = {}

    def add(c):
        C[c.name] = c
    add(WriterContract("write_boolean", ("bool",), [("bool",)]))
    for n, w, s in (("write_int8", 1, True), ("write_int16", 2, True), ("write_int32", 4, True), ("write_int64", 8, True),
                    ("write_uint8", 1, False), ("write_uint16", 2, False), ("write_uint32", 4, False),
                    ("write_uint64", 8, False)):
        add(WriterContract(n, ("be", w, s), [("anyint",)], error=_int_range_error(w, s)))
    add(WriterContract("write_legacy_array_length", ("be", 4, True), [("anyint",)], error=_int_range_error(4, True)))
    add(WriterContract("_write_varint", ("uv",), [("uv", domains.UV10)],
                       requires=lambda ctx, v: z3.And(zint(v) >= 0, zint(v) < domains.UV10)))
    add(WriterContract("write_unsigned_varint", ("uv",), [("uv", domains.UV5)],
                       requires=lambda ctx, v: z3.And(zint(v) >= 0, zint(v) < domains.UV5)))
    add(WriterContract("write_unsigned_varlong", ("uv",), [("uv", domains.UV10)],
                       requires=lambda ctx, v: z3.And(zint(v) >= 0, zint(v) < domains.UV10)))
    add(WriterContract("write_signed_varint", ("sv", 32), [("sv", 32)],
                       requires=lambda ctx, v: z3.And(zint(v) >= -2 ** 31, zint(v) < 2 ** 31)))
    add(WriterContract("write_signed_varlong", ("sv", 64), [("sv", 64)],
                       requires=lambda ctx, v: z3.And(zint(v) >= -2 ** 63, zint(v) < 2 ** 63)))
    add(WriterContract("write_float64", ("f64",), [("f64",)]))
    add(WriterContract("write_nullable_compact_string", _str_or_bytes(True, True), [("ncstr",), ("ncbytes",)],
                       error=_compact_error(True), requires=_len_requires))
    add(WriterContract("write_compact_string", _str_or_bytes(False, True), [("ncstr",), ("ncbytes",)],
                       error=_compact_error(False), requires=_len_requires))
    add(WriterContract("write_nullable_legacy_string", ("nlstr",), [("ncstr",)],
                       error=_legacy_error(True, 32767)))
    add(WriterContract("write_legacy_string", ("lstr",), [("ncstr",)], error=_legacy_error(False, 32767)))
    add(WriterContract("write_nullable_legacy_bytes", ("nlbytes",), [("ncbytes",)],
                       error=_legacy_error(True, 2 ** 31 - 1)))
    add(WriterContract("write_legacy_bytes", ("lbytes",), [("ncbytes",)], error=_legacy_error(False, 2 ** 31 - 1)))
    add(WriterContract("write_compact_array_length", ("clen",), [("anyint",)],
                       error=lambda ctx, v: None if ctx.decide(z3.And(zint(v) >= -1, zint(v) + 1 < domains.UV5)) else TypeError))
    add(WriterContract("write_uuid", ("uuid",), [("uuid",)]))
    add(WriterContract("write_timedelta_i32", ("td", 4), [("td", 4)]))
    add(WriterContract("write_timedelta_i64", ("td", 8), [("td", 8)]))
    add(WriterContract("write_datetime_i64", ("ts",), [("ts",)]))
    add(WriterContract("write_nullable_datetime_i64", ("nts",), [("nts",)]))
    add(WriterContract("write_error_code", ("errcode",), [("errcode",)], param="error_code"))
    return C


class EmptyTaggedContract:
    """write_empty_tagged_fields(buffer): appends uv(0)"""
    is_writer = True
    name = "write_empty_tagged_fields"

    def apply(self, interp, args, kwargs):
        (buffer,) = _bind(args, kwargs, ("buffer",))
        buffer.emit(Lit(b"\x00"))
        return None


class ArrayWriterContract(WriterContract):
    """closure returned by compact_array_writer / legacy_array_writer"""

    def __init__(self, kind, item_contract, item_desc):
        self.kind = kind        # "carr" | "larr"
        self.item_contract = item_contract
        self.item_desc = item_desc
        self.name = f"{'compact' if kind == 'carr' else 'legacy'}_array_writer[{item_desc}]"
        self.param = "items"
        self.kinds = [(kind, item_desc)]

    def desc(self, value):
        return (self.kind, self.item_desc)

    def requires(self, ctx, value):
        return True

    def error(self, ctx, v):
        return None


def require_model_buffer(interp, buffer, who):
    """a contracted writer/reader must be handed a stream of this activation (the ghost sink/source or a
    fresh local buffer); a real long-lived object (module-level or captured buffer) is shared state"""
    if isinstance(buffer, (Sink, LocalBytesIO, Source)):
        return
    from kvc.interp import FrameViolation
    interp.ctx.effects.append(("call-on-shared", f"{who}({type(buffer).__name__})", "stream argument", "shared object"))
    raise FrameViolation(f"FRAME: {who} is handed a shared {type(buffer).__name__} object (not a buffer of this call)")


class TaggedFieldContract:
    """write_tagged_field(buffer, tag, writer, value): uv(tag) ++ uv(|p|) ++ p, p = Enc(d_writer, value)"""
    is_writer = True
    name = "write_tagged_field"

    def __init__(self, lookup):
        self.lookup = lookup

    def apply(self, interp, args, kwargs):
        buffer, tag, writer, value = _bind(args, kwargs, ("buffer", "tag", "writer", "value"))
        ctx = interp.ctx
        require_model_buffer(interp, buffer, "write_tagged_field")
        wc = self.lookup(writer)
        if wc is None or not getattr(wc, "is_writer", False):
            raise Undecided("write_tagged_field: writer argument has no writer contract")
        ctx.oblige("pre/write_tagged_field/tag", z3.And(zint(tag) >= 0, zint(tag) < domains.UV5))
        req = wc.requires(ctx, value)
        if req is not True:
            ctx.oblige(f"pre/{wc.name}", req)
        exc = wc.error(ctx, value)
        if exc is not None:
            raise PyRaise(exc)
        d = wc.desc(value)
        if isinstance(value, SOpt) and d[0] not in ("ncstr", "ncbytes", "nlstr", "nlbytes", "nent", "nts", "uuid", "carr", "larr"):
            from kvc.models import resolve_opt
            value = resolve_opt(ctx, value)
        payload = Enc(d, value)
        for f in kafka.length_facts(payload):
            ctx.assume(f)
        plen = payload.length()
        ctx.oblige("pre/write_tagged_field/size", z3.And(zint(plen) >= 0, zint(plen) < domains.UV5))
        buffer.emit(Enc(("uv",), tag), Enc(("uv",), lower(zint(plen))), payload)
        return None


# ============================================================================== reader contracts
def nullable_sibling(d):
    k = d[0]
    if k in ("cstr", "cbytes", "lstr", "lbytes", "ent", "ts"):
        return ("n" + k,) + tuple(d[1:])
    return None


def non_null_of(d):
    k = d[0]
    if k in ("ncstr", "ncbytes", "nlstr", "nlbytes", "nent", "nts"):
        return (k[1:],) + tuple(d[1:])
    return None


def views(ctx, seg):
    """definitional re-readings of an encoding (each an identity of the spec):
    cstr(s) = cbytes(utf8 s), lstr likewise, and the one-level unfolding."""
    d = seg.codec
    k = d[0]
    out = []
    if k in ("cstr", "lstr"):
        v = seg.args[0]
        if isinstance(v, SStr):
            from kvc.core import utf8
            b = utf8(v.t)
            ctx.assume(blen(b) == ulen(v.t))
            out.append([Enc(("cbytes",) if k == "cstr" else ("lbytes",), SBytes([Raw(b)]))])
        elif isinstance(v, str):
            out.append([Enc(("cbytes",) if k == "cstr" else ("lbytes",), v.encode())])
    return out


class ReaderContract:
    is_reader = True

    def __init__(self, name, desc, general_errors=(), maxbytes=None):
        self.name = name
        self.desc = desc
        self.general_errors = tuple(general_errors)
        self.maxbytes = maxbytes

    def in_domain(self, ctx, v):
        """extra M-precondition on the value (e.g. varint magnitude for a 5-byte reader)"""
        if self.desc == ("uv",) and self.maxbytes:
            return zint(v) < 128 ** self.maxbytes
        return True

    # ---- use at a call site
    def apply(self, interp, args, kwargs):
        (src,) = _bind(args, kwargs, ("buffer",))[:1]
        if self.desc == ("uv",) and (len(args) > 1 or "_max_bytes" in kwargs):
            mb = args[1] if len(args) > 1 else kwargs["_max_bytes"]
            if isinstance(mb, Sym):
                raise Undecided("symbolic _max_bytes")
            c = ReaderContract(self.name, self.desc, self.general_errors, maxbytes=mb)
            return c.read(interp, src)
        return self.read(interp, src)

    def read(self, interp, src):
        ctx = interp.ctx
        require_model_buffer(interp, src, self.name)
        if not isinstance(src, (Source, LocalBytesIO)):
            raise Undecided(f"{self.name}: buffer argument is not a source")
        from kio.serial.errors import BufferUnderflow, UnexpectedNull
        if getattr(src, "faulty", False):
            if ctx.decide(z3.Bool(ctx.fresh("io_fault"))):
                from kvc.models import IOFault
                raise PyRaise(IOFault)
        for _ in range(6):
            head = src.head()
            if head is None:
                if src.avail is not None or not src.segs:
                    # nothing left: every reader needs at least one byte
                    if kafka.min_len(self.desc) >= 1:
                        raise PyRaise(BufferUnderflow)
                raise Undecided(f"{self.name}: empty structured source")
            if isinstance(head, Raw) and len(src.segs) == 1 and getattr(src, "general", False):
                return self.general(interp, src)
            if isinstance(head, Lit):
                # concrete bytes: recognise the canonical encoding they start with
                dd = nullable_sibling(self.desc) or self.desc
                r = kafka.parse_concrete(dd, head.b)
                if r is not None and kafka.concrete(dd, r[0]) == head.b[:r[1]]:
                    src.segs[0:1] = [Enc(dd, r[0])] + ([Lit(head.b[r[1]:])] if head.b[r[1]:] else [])
                    continue
            if not isinstance(head, Enc):
                if getattr(src, "general", False):
                    return self.general(interp, src)
                if self.desc[0] in ("be", "le") and all(isinstance(x, (Raw, Lit)) for x in src.segs) \
                        and ctx.entails(zint(src.remaining()) < self.desc[1]):
                    # T clause of a fixed-width reader: fewer than w bytes are left (every such string is a strict prefix
                    # of an encoding) - everything is consumed and BufferUnderflow is raised
                    src.take_exact(src.remaining())
                    raise PyRaise(BufferUnderflow)
                raise Mismatch(f"{self.name} applied to non-encoded head {head!r}")
            hd = head.codec
            if hd == self.desc:
                return self.match(interp, src, head.args[0])
            if nullable_sibling(self.desc) == hd:
                v = head.args[0]
                n = _none(v)
                if n is not False and (n is True or ctx.decide(n)):
                    self.consume(interp, src)
                    raise PyRaise(UnexpectedNull)
                return self.match(interp, src, kafka._some(v))
            if non_null_of(self.desc) == hd:
                return self.match(interp, src, head.args[0])
            # a definitional view of the head that exposes our descriptor?
            done = False
            for alt in views(ctx, head):
                if alt[0].codec in (self.desc, nullable_sibling(self.desc), non_null_of(self.desc)):
                    src.segs[0:1] = alt
                    done = True
                    break
            if done:
                continue
            try:
                src.unfold_head()
            except Undecided:
                raise Mismatch(f"{self.name} (reads {self.desc}) applied to {head!r}")
        raise Mismatch(f"{self.name} (reads {self.desc}) cannot be matched against {src.segs[:2]!r}")

    def consume(self, interp, src):
        """consume the head segment; on a truncated stream fork into available / underflow"""
        if isinstance(src, Source):
            src.nreads += 1
        from kio.serial.errors import BufferUnderflow
        ctx = interp.ctx
        head = src.head()
        if src.avail is not None:
            if not ctx.decide(zint(src.avail) >= zint(head.length())):
                src.segs = []
                src.avail = 0
                raise PyRaise(BufferUnderflow)
        src.pop_head()

    def match(self, interp, src, v):
        ctx = interp.ctx
        dom = self.in_domain(ctx, v)
        if dom is not True:
            ctx.oblige(f"dom/{self.name}", dom)
        self.consume(interp, src)
        return v

    def general(self, interp, src):
        """G clause: nondeterministic outcome on arbitrary bytes"""
        ctx = interp.ctx
        from kio.serial.errors import BufferUnderflow
        for exc in (BufferUnderflow,) + self.general_errors:
            if ctx.decide_free(f"g_{exc.__name__}"):
                raise PyRaise(exc)
        v = domains.generic(ctx, self.desc if not self.maxbytes else ("uv", 128 ** self.maxbytes),
                            ctx.fresh(f"g_{self.name}"), strict=False)
        rem = zint(src.remaining())
        c = ctx.int_const(ctx.fresh("consumed"))
        ctx.assume(z3.And(c >= kafka.min_len(self.desc), c <= rem))
        src._take(c)
        return v


def reader_contracts():
    from kio.serial.errors import UnexpectedNull
    R = {}

    def add(c):
        R[c.name] = c
    add(ReaderContract("read_boolean", ("bool",)))
    for n, w, s in (("read_int8", 1, True), ("read_int16", 2, True), ("read_int32", 4, True), ("read_int64", 8, True),
                    ("read_uint8", 1, False), ("read_uint16", 2, False), ("read_uint32", 4, False),
                    ("read_uint64", 8, False)):
        add(ReaderContract(n, ("be", w, s)))
    add(ReaderContract("read_unsigned_varint", ("uv",), (ValueError,), maxbytes=5))
    add(ReaderContract("read_unsigned_varlong", ("uv",), (ValueError,), maxbytes=10))
    add(ReaderContract("read_signed_varint", ("sv", 32), (ValueError,)))
    add(ReaderContract("read_signed_varlong", ("sv", 64), (ValueError,)))
    add(ReaderContract("read_float64", ("f64",)))
    add(ReaderContract("read_compact_string_as_bytes", ("cbytes",), (ValueError, UnexpectedNull)))
    add(ReaderContract("read_compact_string_as_bytes_nullable", ("ncbytes",), (ValueError,)))
    add(ReaderContract("read_compact_string", ("cstr",), (ValueError, UnexpectedNull, UnicodeDecodeError)))
    add(ReaderContract("read_compact_string_nullable", ("ncstr",), (ValueError, UnicodeDecodeError)))
    add(ReaderContract("read_legacy_bytes", ("lbytes",), (UnexpectedNull,)))
    add(ReaderContract("read_nullable_legacy_bytes", ("nlbytes",)))
    add(ReaderContract("read_legacy_string", ("lstr",), (UnexpectedNull, UnicodeDecodeError)))
    add(ReaderContract("read_nullable_legacy_string", ("nlstr",), (UnicodeDecodeError,)))
    add(ReaderContract("read_compact_array_length", ("clen",), (ValueError,)))
    add(ReaderContract("read_uuid", ("uuid",)))
    add(ReaderContract("read_error_code", ("errcode",), (ValueError,)))
    from kio.serial.errors import OutOfBoundValue
    add(ReaderContract("read_timedelta_i32", ("td", 4)))
    add(ReaderContract("read_timedelta_i64", ("td", 8), (OverflowError,)))
    add(ReaderContract("read_datetime_i64", ("ts",), (OutOfBoundValue, OverflowError, ValueError)))
    add(ReaderContract("read_nullable_datetime_i64", ("nts",), (OutOfBoundValue, OverflowError, ValueError)))
    return R


class ReadExactContract:
    """read_exact(buffer, n): n >= 0 and at least n bytes left -> exactly the next n bytes;
    otherwise BufferUnderflow (never a short value)."""
    is_reader = True
    name = "read_exact"

    def apply(self, interp, args, kwargs):
        buffer, n = _bind(args, kwargs, ("buffer", "num_bytes"))
        if not isinstance(buffer, (Source, LocalBytesIO)):
            raise Undecided("read_exact: buffer argument is not a source")
        if getattr(buffer, "faulty", False):
            if interp.ctx.decide(z3.Bool(interp.ctx.fresh("io_fault"))):
                from kvc.models import IOFault
                raise PyRaise(IOFault)
        if isinstance(n, (SOpt, SStr, SBytes)) or n is None:
            raise Undecided("read_exact with a non-int size")
        return buffer.take_exact(n)


class ZigzagDecodeContract:
    """_zigzag_decode(value >= 0) = value/2 if even else -(value+1)/2"""
    name = "_zigzag_decode"

    def apply(self, interp, args, kwargs):
        (v,) = _bind(args, kwargs, ("value",))
        t = zint(v)
        interp.ctx.oblige("pre/_zigzag_decode", t >= 0)
        return lower(z3.If(t % 2 == 0, t / 2, -((t + 1) / 2)))


class TzAwareFromI64Contract:
    """tz_aware_from_i64(ms): the aware instant epoch + ms milliseconds for 0 <= ms <= max;
    OutOfBoundValue for negative ms; OverflowError beyond the datetime range"""
    name = "tz_aware_from_i64"

    def apply(self, interp, args, kwargs):
        from kio.serial.errors import OutOfBoundValue
        (ts,) = _bind(args, kwargs, ("timestamp",))
        ctx = interp.ctx
        t = zint(ts)
        if ctx.decide(t > domains.TS_MAX_MS):
            raise PyRaise(OverflowError)
        if ctx.decide(t < opaque.DT_MIN_US / 1000):
            raise PyRaise(OverflowError)
        if ctx.decide(t < 0):
            raise PyRaise(OutOfBoundValue)
        return SOpaque(z3.simplify(t * 1000), "datetime")


class ArrayReaderContract(ReaderContract):
    def __init__(self, kind, item_contract, item_desc):
        from kio.serial.errors import UnexpectedNull
        self.kind = kind
        self.item_contract = item_contract
        self.item_desc = item_desc
        self.desc = (kind, item_desc)
        self.name = f"{'compact' if kind == 'carr' else 'legacy'}_array_reader[{item_desc}]"
        self.general_errors = tuple(set((ValueError,) + tuple(getattr(item_contract, "general_errors", ()))))
        self.maxbytes = None


# ============================================================================== resolution by identity
class Registry:
    """maps live function objects (incl. closures produced by the real factories) to contracts"""

    def __init__(self, extra=None):
        import kio.serial.readers as R
        import kio.serial.writers as W
        self.R, self.W = R, W
        self.by_id = {}
        self.writers = writer_contracts()
        self.readers = reader_contracts()
        self.missing = []
        # contracts are anchored on the PUBLIC functions; a private helper that no longer exists under its name is
        # not an alarm: whatever replaced it is verified inside its callers (inlined), whose contracts are unchanged
        self.absent_private = []
        for name, c in list(self.writers.items()):
            fn = getattr(W, name, None)
            if fn is None:
                if name.startswith("_"):
                    self.absent_private.append(f"kio.serial.writers.{name}")
                    del self.writers[name]
                else:
                    self.missing.append(f"kio.serial.writers.{name}")
                continue
            self.by_id[id(fn)] = (fn, c)
        etf = getattr(W, "write_empty_tagged_fields", None)
        if etf is not None:
            self.by_id[id(etf)] = (etf, EmptyTaggedContract())
        for name, c in list(self.readers.items()):
            fn = getattr(R, name, None)
            if fn is None:
                if name.startswith("_"):
                    self.absent_private.append(f"kio.serial.readers.{name}")
                    del self.readers[name]
                else:
                    self.missing.append(f"kio.serial.readers.{name}")
                continue
            self.by_id[id(fn)] = (fn, c)
        if hasattr(R, "read_exact"):
            self.by_id[id(R.read_exact)] = (R.read_exact, ReadExactContract())
        if hasattr(R, "_zigzag_decode"):
            self.by_id[id(R._zigzag_decode)] = (R._zigzag_decode, ZigzagDecodeContract())
        if hasattr(R, "tz_aware_from_i64"):
            self.by_id[id(R.tz_aware_from_i64)] = (R.tz_aware_from_i64, TzAwareFromI64Contract())
        if hasattr(W, "write_tagged_field"):
            self.by_id[id(W.write_tagged_field)] = (W.write_tagged_field, TaggedFieldContract(self.lookup))
        self.extra = extra
        self.closure_cache = {}

    def lookup(self, fn):
        try:
            hit = self.by_id.get(id(fn))
        except Exception:
            return None
        if hit is not None and hit[0] is fn:
            return hit[1]
        q = getattr(fn, "__qualname__", "")
        mod = getattr(fn, "__module__", "")
        if "<locals>" in q and mod in ("kio.serial.readers", "kio.serial.writers"):
            key = id(fn)
            if key in self.closure_cache and self.closure_cache[key][0] is fn:
                return self.closure_cache[key][1]
            c = self.closure_contract(fn, q)
            self.closure_cache[key] = (fn, c)
            return c
        if self.extra is not None:
            return self.extra(fn, self)
        return None

    def closure_contract(self, fn, q):
        cells = {}
        if fn.__closure__:
            for n, cell in zip(fn.__code__.co_freevars, fn.__closure__):
                try:
                    cells[n] = cell.cell_contents
                except ValueError:
                    pass
        factory = q.split(".<locals>.")[0]
        kind = {"compact_array_writer": "carr", "legacy_array_writer": "larr",
                "compact_array_reader": "carr", "legacy_array_reader": "larr"}.get(factory)
        if kind is None:
            return None
        item = cells.get("item_writer") or cells.get("item_reader")
        if item is None:
            cand = [v for v in cells.values() if callable(v) and not isinstance(v, type)]
            item = cand[0] if len(cand) == 1 else None
        if item is None:
            return None
        ic = self.lookup(item)
        if ic is None:
            return None
        if factory.endswith("writer"):
            if isinstance(ic, WriterContract):
                descs = ic.kinds if callable(ic._desc) else None if not hasattr(ic, "_desc") else None
            idesc = item_desc_of(ic)
            return ArrayWriterContract(kind, ic, idesc)
        return ArrayReaderContract(kind, ic, ic.desc)


def item_desc_of(wc):
    """descriptor an item writer implements (for str-or-bytes writers the caller's field type
    decides; arrays of strings use the str form)"""
    d = wc._desc if hasattr(wc, "_desc") else None
    if d is None:
        return wc.desc(None)
    if callable(d):
        return d(SStr(z3.StringVal("")))
    return d
