"""Values of Python types that the engine treats abstractly.

kind        z3 term                       meaning
float       const of sort F               equality only (finite floats; -0.0 == 0.0 share a literal)
uuid        const of sort U               with uuid_bytes / uuid_of (mutually inverse on 16-byte strings)
timedelta   Int                           total microseconds (exact; timedelta is an integer type)
datetime    Int                           microseconds since the epoch of an *aware* datetime (instant)
enum:<Cls>  Int                           value of a member of an int-valued Enum
"""
from __future__ import annotations

import ast
import z3

from .core import (Bsort, I, PyRaise, Raw, SBool, SBytes, SInt, SOpaque, Sym, Undecided, blen, lower, zint)

F = z3.DeclareSort("F")
U = z3.DeclareSort("U")
uuid_bytes = z3.Function("uuid_bytes", U, Bsort)
uuid_of = z3.Function("uuid_of", Bsort, U)
f64bits = z3.Function("f64bits", F, Bsort)
f64of = z3.Function("f64of", Bsort, F)
isfinite = z3.Function("isfinite", F, z3.BoolSort())

_literals = {"float": {}, "uuid": {}, "bytes": {}}

TD_MIN_US = -999999999 * 86400 * 10 ** 6
TD_MAX_US = (999999999 * 86400 + 86399) * 10 ** 6 + 999999
DT_MAX_US = 253402300799999999     # 9999-12-31T23:59:59.999999Z
DT_MIN_US = -62135596800000000     # 0001-01-01T00:00:00Z


def literal(kind, v):
    reg = _literals[kind]
    key = v
    if kind == "float":
        key = 0.0 if v == 0 else v
        if key != key:
            raise Undecided("NaN literal")
    if key not in reg:
        sort = {"float": F, "uuid": U, "bytes": Bsort}[kind]
        reg[key] = z3.Const(f"lit_{kind}_{len(reg)}", sort)
    return reg[key]


def literal_facts():
    """distinctness of the literals created so far + their structural facts"""
    facts = []
    for kind, reg in _literals.items():
        cs = list(reg.values())
        if len(cs) > 1:
            facts.append(z3.Distinct(*cs))
    for v, c in _literals["bytes"].items():
        facts.append(blen(c) == len(v))
    for v, c in _literals["uuid"].items():
        b = literal("bytes", v.bytes)
        facts.append(uuid_bytes(c) == b)
        facts.append(uuid_of(b) == c)
    for v, c in _literals["float"].items():
        import math
        facts.append(isfinite(c) == z3.BoolVal(math.isfinite(v)))
    return facts


def kind_of(v):
    import datetime
    import enum
    import uuid
    if isinstance(v, float):
        return "float"
    if isinstance(v, uuid.UUID):
        return "uuid"
    if isinstance(v, datetime.timedelta):
        return "timedelta"
    if isinstance(v, datetime.datetime):
        return "datetime"
    if isinstance(v, enum.Enum) and isinstance(v.value, int):
        return f"enum:{type(v).__qualname__}"
    return None


def td_us(v):
    return (v.days * 86400 + v.seconds) * 10 ** 6 + v.microseconds


def dt_us(v):
    import datetime
    if v.tzinfo is None or v.tzinfo.utcoffset(v) is None:
        raise Undecided("naive datetime literal")
    d = v - datetime.datetime(1970, 1, 1, tzinfo=datetime.timezone.utc)
    return td_us(d)


def term_of(kind, v):
    """z3 term for a concrete python value of an opaque kind"""
    if isinstance(v, SOpaque):
        return v.t
    if kind == "float":
        return literal("float", float(v))
    if kind == "uuid":
        return literal("uuid", v)
    if kind == "timedelta":
        return z3.IntVal(td_us(v))
    if kind == "datetime":
        return z3.IntVal(dt_us(v))
    if kind.startswith("enum:"):
        return z3.IntVal(v.value)
    raise Undecided(f"term_of {kind}")


def eq_concrete(a: SOpaque, b):
    k = kind_of(b)
    if a.kind == "float" and isinstance(b, int) and not isinstance(b, bool):
        k, b = "float", float(b)
    if k != a.kind:
        return False
    return a.t == term_of(k, b)


def truth(v: SOpaque):
    if v.kind == "timedelta":
        return v.t != 0
    if v.kind in ("uuid", "datetime") or v.kind.startswith("enum:"):
        return True
    raise Undecided(f"truth of {v.kind}")


def compare(interp, op, a, b):
    ka = a.kind if isinstance(a, SOpaque) else kind_of(a)
    kb = b.kind if isinstance(b, SOpaque) else kind_of(b)
    if ka != kb or ka not in ("timedelta", "datetime"):
        raise Undecided(f"ordering of {ka} and {kb}")
    x, y = term_of(ka, a), term_of(kb, b)
    t = {ast.Lt: x < y, ast.LtE: x <= y, ast.Gt: x > y, ast.GtE: x >= y}[type(op)]
    return lower(t)


def mk_timedelta(interp, us):
    """timedelta with the given total microseconds; OverflowError outside the type's range"""
    us = zint(us)
    if interp.ctx.decide(z3.And(us >= TD_MIN_US, us <= TD_MAX_US)):
        s = z3.simplify(us)
        return SOpaque(s, "timedelta")
    raise PyRaise(OverflowError, "timedelta out of range")


def mk_datetime(interp, us):
    us = zint(us)
    if interp.ctx.decide(z3.And(us >= DT_MIN_US, us <= DT_MAX_US)):
        return SOpaque(z3.simplify(us), "datetime")
    raise PyRaise(OverflowError, "date value out of range")


def binop(interp, op, a, b):
    ka = a.kind if isinstance(a, SOpaque) else kind_of(a)
    kb = b.kind if isinstance(b, SOpaque) else kind_of(b)
    if isinstance(op, (ast.Add, ast.Sub)):
        sign = 1 if isinstance(op, ast.Add) else -1
        if ka == "timedelta" and kb == "timedelta":
            return mk_timedelta(interp, term_of(ka, a) + sign * term_of(kb, b))
        if ka == "datetime" and kb == "timedelta":
            return mk_datetime(interp, term_of(ka, a) + sign * term_of(kb, b))
        if ka == "timedelta" and kb == "datetime" and sign == 1:
            return mk_datetime(interp, term_of(ka, a) + term_of(kb, b))
        if ka == "datetime" and kb == "datetime" and sign == -1:
            return mk_timedelta(interp, term_of(ka, a) - term_of(kb, b))
    if isinstance(op, ast.FloorDiv) and ka == "timedelta":
        if kb == "timedelta":
            d = term_of(kb, b)
            d = z3.simplify(d)
            if z3.is_int_value(d) and d.as_long() > 0:
                return lower(term_of(ka, a) / d.as_long())
            raise Undecided("timedelta // symbolic timedelta")
        if isinstance(b, int) and b > 0:
            return mk_timedelta(interp, term_of(ka, a) / b)
    if isinstance(op, ast.Mod) and ka == "timedelta" and kb == "timedelta":
        d = z3.simplify(term_of(kb, b))
        if z3.is_int_value(d) and d.as_long() > 0:
            return mk_timedelta(interp, term_of(ka, a) % d.as_long())
    if isinstance(op, ast.Mult):
        if ka == "timedelta" and isinstance(b, (int, SInt)):
            return mk_timedelta(interp, term_of(ka, a) * zint(b))
        if kb == "timedelta" and isinstance(a, (int, SInt)):
            return mk_timedelta(interp, term_of(kb, b) * zint(a))
    if ka == "float" or kb == "float" or isinstance(op, ast.Div):
        raise Undecided("float arithmetic (outside the subset)")
    raise Undecided(f"operator {type(op).__name__} on {ka}, {kb}")
