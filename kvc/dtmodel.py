"""Model of aware datetimes and of the non-integer phantom predicates (filled in by C12 work)."""
from .core import Undecided


def attr(interp, o, name):
    raise Undecided(f"datetime.{name} is not modelled")


def phantom_predicate(interp, v, cls):
    raise Undecided(f"phantom predicate of {cls.__name__} on symbolic value")
