"""Model of aware datetimes and of the non-integer phantom predicates.

A symbolic datetime is an *aware* datetime in UTC: SOpaque(us, "datetime") with `us` the
(integer) number of microseconds since the epoch. Equality of aware datetimes is equality of
instants, so this is exact for every comparison the code under contract makes.

Two float facts are admitted as trusted lemmas because they are exact:
  * `dt.timestamp() >= 0  <=>  instant_us(dt) >= 0` (timestamp() is a correctly rounded
    monotone function of the instant and maps 0 to 0.0) - modelled by SInstantSeconds, which
    only supports comparison against integers;
  * datetime.timezone.utc.utcoffset(x) is timedelta(0).
"""
from __future__ import annotations

import datetime
import z3

from . import opaque
from .core import PyRaise, SBool, SInt, SOpaque, SOpt, Sym, Undecided, lower, zint
from .interp import SymMethod


class SInstantSeconds(Sym):
    """the float dt.timestamp(): exact rational us/10^6; only its order against ints is used"""

    def __init__(self, us):
        self.us = us

    def __repr__(self):
        return f"SInstantSeconds({self.us}/1e6)"


def attr(interp, o, name):
    ctx = interp.ctx
    us = o.t
    if o.kind == "naive_datetime":
        # a naive datetime: `us` is its wall-clock value; no instant is defined
        if name == "tzinfo":
            return None
        if name == "microsecond":
            return lower(us % 10 ** 6)
        raise Undecided(f"naive datetime.{name} is not modelled")
    off = o.aux        # UTC offset in microseconds (None = UTC); assumed a whole number of milliseconds
    if name == "tzinfo":
        return datetime.timezone.utc if off is None else STz(off)
    if name == "microsecond":
        return lower((us if off is None else us + off) % 10 ** 6)
    if name == "timestamp":
        return SymMethod(lambda: SInstantSeconds(us), "timestamp")
    if name == "utcoffset":
        return SymMethod(lambda: datetime.timedelta(0), "utcoffset")
    if name == "replace":
        def replace(**kw):
            if set(kw) != {"microsecond"}:
                raise Undecided(f"datetime.replace({sorted(kw)}) is not modelled")
            m = kw["microsecond"]
            mt = zint(m)
            if not ctx.decide(z3.And(mt >= 0, mt <= 999999)):
                raise PyRaise(ValueError, "microsecond must be in 0..999999")
            loc = us if off is None else us + off
            return SOpaque(z3.simplify(us - loc % 10 ** 6 + mt), "datetime", off)
        return SymMethod(replace, "replace")
    raise Undecided(f"datetime.{name} is not modelled")


class STz(Sym):
    """tzinfo of a symbolic aware datetime with a fixed offset"""

    def __init__(self, off):
        self.off = off

    def kvc_getattr(self, interp, name, fr, node):
        if name == "utcoffset":
            return SymMethod(lambda dt=None: SOpaque(self.off, "timedelta"), "utcoffset")
        raise Undecided(f"tzinfo.{name} is not modelled")


def compare_instant(interp, op, a, b):
    import ast
    if isinstance(a, SInstantSeconds) and isinstance(b, (int, SInt)) and not isinstance(b, bool):
        x, y = a.us, zint(b) * 10 ** 6
    elif isinstance(b, SInstantSeconds) and isinstance(a, (int, SInt)) and not isinstance(a, bool):
        x, y = zint(a) * 10 ** 6, b.us
    else:
        raise Undecided("float comparison (outside the subset)")
    t = {ast.Lt: x < y, ast.LtE: x <= y, ast.Gt: x > y, ast.GtE: x >= y, ast.Eq: x == y, ast.NotEq: x != y}[type(op)]
    return lower(t)


def phantom_predicate(interp, v, cls):
    """contract of the non-interval phantom predicates, used at call sites (C12 verifies the
    real predicates against the same characterisation)"""
    name = cls.__name__
    if isinstance(v, SOpaque) and v.kind == "timedelta":
        from spec import domains
        if name == "i32Timedelta":
            return lower(z3.And(v.t >= -(2 ** 31) * 1000, v.t <= (2 ** 31 - 1) * 1000))
        if name == "i64Timedelta":
            return lower(z3.And(v.t >= opaque.TD_MIN_US, v.t <= opaque.TD_MAX_US - 86400 * 10 ** 6))
    if isinstance(v, SOpaque) and v.kind == "datetime":
        if name == "TZAwareMicros":
            return lower(v.t >= 0)
        if name == "TZAware":
            return lower(z3.And(v.t >= 0, v.t % 1000 == 0))
    if isinstance(v, SOpaque) and v.kind == "float" and name == "f64":
        return lower(opaque.isfinite(v.t))
    raise Undecided(f"phantom predicate of {name} on {v!r}")
