"""Python int operators on symbolic (mathematical) integers.

Python ints are unbounded, so +,-,* are exact in z3's Int. Bit operators are rewritten by
identities of infinite two's-complement integers; every identity that has a side condition is
applied only when the path condition entails it (otherwise the function is *undecided*):

  x >> k         = floor(x / 2^k)                      (k concrete >= 0)
  x << k         = x * 2^k                             (k concrete >= 0)
  x & m          = sum over maximal bit runs [lo,hi) of m: ((x div 2^lo) mod 2^(hi-lo)) * 2^lo   (m concrete >= 0)
  x & -1         = x
  x | y, x ^ y   = x + y        when the set bits are disjoint:  0 <= x < 2^k  and  y mod 2^k == 0, y >= 0
  x ^ y          = ite(y == 0, x, -x-1)   when y in {0, -1}
  x // d, x % d  = floor division / modulus           (d concrete != 0)
"""
import ast
import z3

from .core import SBool, SInt, Undecided, PyRaise, lower, zint


def _conc(v):
    if isinstance(v, bool):
        return int(v)
    if isinstance(v, int):
        return v
    if isinstance(v, (SInt, SBool)):
        s = z3.simplify(zint(v))
        if z3.is_int_value(s):
            return s.as_long()
    return None


def _pow2_factor(t):
    """largest k such that the term is syntactically (something * 2^k); 0 otherwise"""
    t = z3.simplify(t)
    if z3.is_int_value(t):
        v = t.as_long()
        if v == 0:
            return 10 ** 6
        k = 0
        while v % 2 == 0:
            v //= 2
            k += 1
        return k
    if z3.is_mul(t):
        return sum(_pow2_factor(c) for c in t.children() if z3.is_int_value(c))
    if z3.is_add(t):
        return min(_pow2_factor(c) for c in t.children())
    return 0


def _disjoint_sum(ctx, x, y):
    """x|y == x^y == x+y if bits are disjoint (both >= 0). Returns term or None."""
    for a, b in ((x, y), (y, x)):
        k = _pow2_factor(b)
        if k <= 0:
            continue
        if k >= 10 ** 6:
            return a
        k = min(k, 200)
        if ctx.entails(z3.And(a >= 0, a < 2 ** k, b >= 0)):
            return a + b
    return None


def _div(x, c):
    """floor(x / c) for c > 0, merging nested divisions: (x div a) div b == x div (a*b)"""
    x = z3.simplify(x)
    if z3.is_app(x) and x.decl().kind() == z3.Z3_OP_IDIV and z3.is_int_value(x.arg(1)) and x.arg(1).as_long() > 0:
        return x.arg(0) / (x.arg(1).as_long() * c)
    return x / c


def int_binop(ctx, op, a, b):
    x, y = zint(a), zint(b)
    ca, cb = _conc(a), _conc(b)
    if isinstance(op, ast.Add):
        return lower(x + y)
    if isinstance(op, ast.Sub):
        return lower(x - y)
    if isinstance(op, ast.Mult):
        return lower(x * y)
    if isinstance(op, ast.Div):
        raise Undecided("true division produces a float (outside the subset)")
    if isinstance(op, (ast.FloorDiv, ast.Mod)):
        if cb is None:
            raise Undecided("division by a symbolic value")
        if cb == 0:
            raise PyRaise(ZeroDivisionError)
        if cb > 0:
            return lower(_div(x, cb) if isinstance(op, ast.FloorDiv) else x % cb)
        # floor semantics for negative divisor: x // d == (-x) // (-d); x % d == -((-x) % (-d))
        return lower((-x) / (-cb) if isinstance(op, ast.FloorDiv) else -((-x) % (-cb)))
    if isinstance(op, ast.Pow):
        if ca is not None and cb is not None:
            return ca ** cb
        raise Undecided("symbolic power")
    if isinstance(op, ast.LShift):
        if cb is None:
            raise Undecided("shift by a symbolic amount")
        if cb < 0:
            raise PyRaise(ValueError)
        return lower(x * (2 ** cb))
    if isinstance(op, ast.RShift):
        if cb is None:
            raise Undecided("shift by a symbolic amount")
        if cb < 0:
            raise PyRaise(ValueError)
        return lower(_div(x, 2 ** cb))
    if isinstance(op, ast.BitAnd):
        if ca is not None and cb is None:
            x, y, ca, cb = y, x, cb, ca
        if cb is None:
            raise Undecided("& of two symbolic values")
        if cb == -1:
            return lower(x)
        if cb < 0:
            raise Undecided("& with a negative mask")
        m, lo, terms = cb, 0, []
        while m:
            if m & 1:
                hi = lo
                while (cb >> hi) & 1:
                    hi += 1
                terms.append(((_div(x, 2 ** lo) if lo else x) % (2 ** (hi - lo))) * (2 ** lo))
                m >>= (hi - lo)
                lo = hi
            else:
                m >>= 1
                lo += 1
        if not terms:
            return 0
        t = terms[0]
        for u in terms[1:]:
            t = t + u
        return lower(t)
    if isinstance(op, (ast.BitOr, ast.BitXor)):
        if ca == 0:
            return lower(y)
        if cb == 0:
            return lower(x)
        if isinstance(op, ast.BitXor):
            for p, q in ((x, y), (y, x)):
                if ctx.entails(z3.Or(q == 0, q == -1)):
                    return lower(z3.If(q == 0, p, -p - 1))
        s = _disjoint_sum(ctx, x, y)
        if s is not None:
            return lower(s)
        raise Undecided(f"bit operator {type(op).__name__}: disjointness side condition not provable")
    raise Undecided(f"int operator {type(op).__name__}")
