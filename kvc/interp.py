"""kvc interpreter: symbolic execution of the REAL function bodies, re-read from disk with `ast`.

A function under verification is given as a live function object; its FunctionDef node is
located in `ast.parse(<file on disk>)` by (co_filename, co_firstlineno, co_name); free
variables and globals are bound from the live object.  Concrete values are computed natively,
symbolic ones (kvc.core.Sym) by the rules below.  Anything outside the supported subset raises
Undecided - it never passes silently and never counts as a violation.

Dropped by extraction: annotations, docstrings, comments, `# type: ignore`, the text of
f-string messages (their sub-expressions are still evaluated for effects).
"""
from __future__ import annotations

import ast
import builtins
import dataclasses
import inspect
import io
import types
import z3

from .core import (Byte, Ctx, Enc, Lit, PyRaise, Raw, SBool, SBytes, SInt, SOpaque, SOpt, SRec, SSeq,
                   SStr, Sym, Undecided, as_bytes, blen, byteat, bslice, lower, mk_int, normalise,
                   sym_eq, tobool, total_len, utf8, utf8dec, valid_utf8, encodable, ulen, zint)

_ast_cache: dict[str, tuple[ast.Module, dict]] = {}


def funcdef_of(fn):
    """the FunctionDef/Lambda AST node of a live function, re-read from disk"""
    code = fn.__code__
    fname = code.co_filename
    if fname not in _ast_cache:
        with open(fname, "rb") as fh:
            src = fh.read()
        tree = ast.parse(src, fname)
        index = {}
        for node in ast.walk(tree):
            if isinstance(node, (ast.FunctionDef, ast.AsyncFunctionDef)):
                # co_firstlineno is the line of the first decorator when there is one
                first = min([node.lineno] + [d.lineno for d in node.decorator_list])
                index[(node.name, first)] = node
                index.setdefault((node.name, node.lineno), node)
            elif isinstance(node, ast.Lambda):
                index[("<lambda>", node.lineno)] = node
        _ast_cache[fname] = (tree, index)
    _, index = _ast_cache[fname]
    node = index.get((code.co_name, code.co_firstlineno))
    if node is None:
        raise Undecided(f"cannot locate source of {fn.__qualname__} at {fname}:{code.co_firstlineno}")
    return node


def span_of(fn):
    node = funcdef_of(fn)
    return fn.__code__.co_filename, node.lineno, node.end_lineno


def ast_digest(fn):
    import hashlib
    return hashlib.sha256(ast.dump(funcdef_of(fn)).encode()).hexdigest()[:16]


class FrameViolation(Undecided):
    """the function touches state outside its frame (shared / global / captured mutable object)"""


class ReturnEx(Exception):
    def __init__(self, v):
        self.v = v


class BreakEx(Exception):
    pass


class ContinueEx(Exception):
    pass


READONLY_METHODS = {"items", "values", "keys", "get", "__getitem__", "__contains__", "__len__", "__iter__",
                    "index", "count", "copy", "startswith", "endswith", "removeprefix", "removesuffix",
                    "split", "join", "lower", "upper", "capitalize", "format", "encode", "decode", "hex",
                    "bit_length", "to_bytes", "total_seconds", "timestamp", "replace", "utcoffset",
                    "islower", "isupper", "isdigit", "matches", "is_integer", "strip", "isoformat"}
MUTATING_METHODS = {"append", "extend", "insert", "pop", "popitem", "clear", "update", "setdefault", "add",
                    "remove", "discard", "sort", "reverse", "write", "seek", "truncate", "read", "readline",
                    "close", "cache_clear", "__setitem__", "__delitem__", "writelines", "readinto", "flush"}
IMMUTABLE_TYPES = (int, float, str, bytes, bool, tuple, frozenset, type(None), types.FunctionType,
                   types.BuiltinFunctionType, type, types.MappingProxyType, types.ModuleType,
                   __import__("struct").Struct)          # a compiled struct format has no mutable state


class Frame:
    def __init__(self, fn, env):
        self.fn = fn
        self.env = env
        self.globals = fn.__globals__ if fn is not None else {}
        self.fresh = set()      # ids of objects created by this activation


class Interp:
    """Executes real function bodies. `summaries(fn)` may return a callee contract object with
    `.apply(interp, args, kwargs)`; `models` maps stdlib callables to model functions."""

    def __init__(self, ctx: Ctx, summaries=None, models=None, inline=None, depth=0):
        self.ctx = ctx
        self.summaries = summaries or (lambda fn: None)
        self.models = models or {}
        self.inline = inline or (lambda fn: False)
        self.frames = []
        self.depth = depth
        self.fresh_ids = set()
        self.steps = 0

    # ------------------------------------------------------------------ entry
    def call_function(self, fn, args, kwargs=None):
        kwargs = kwargs or {}
        node = funcdef_of(fn)
        env = {}
        if fn.__closure__:
            for name, cell in zip(fn.__code__.co_freevars, fn.__closure__):
                try:
                    env[name] = cell.cell_contents
                except ValueError:
                    pass
        self.bind_args(fn, node, env, list(args), dict(kwargs))
        fr = Frame(fn, env)
        fr.captured = {id(v) for v in env.values()} if fn.__closure__ else set()
        self.frames.append(fr)
        if len(self.frames) > 40:
            raise Undecided("recursion depth")
        is_gen = bool(fn.__code__.co_flags & inspect.CO_GENERATOR)
        if is_gen:
            fr.yields = []
        try:
            if isinstance(node, ast.Lambda):
                return self.ev(node.body, fr)
            self.block(node.body, fr)
            return fr.yields if is_gen else None
        except ReturnEx as r:
            return fr.yields if is_gen else r.v
        finally:
            self.frames.pop()

    def bind_args(self, fn, node, env, args, kwargs):
        a = node.args
        params = [p.arg for p in a.posonlyargs + a.args]
        defaults = fn.__defaults__ or ()
        dmap = dict(zip(params[len(params) - len(defaults):], defaults))
        for i, p in enumerate(params):
            if i < len(args):
                env[p] = args[i]
            elif p in kwargs:
                env[p] = kwargs.pop(p)
            elif p in dmap:
                env[p] = dmap[p]
            else:
                raise PyRaise(TypeError, f"missing argument {p}")
        if len(args) > len(params):
            if a.vararg:
                env[a.vararg.arg] = tuple(args[len(params):])
            else:
                raise PyRaise(TypeError, "too many positional arguments")
        elif a.vararg:
            env[a.vararg.arg] = ()
        kwd = fn.__kwdefaults__ or {}
        for p in a.kwonlyargs:
            if p.arg in kwargs:
                env[p.arg] = kwargs.pop(p.arg)
            elif p.arg in kwd:
                env[p.arg] = kwd[p.arg]
            else:
                raise PyRaise(TypeError, f"missing keyword argument {p.arg}")
        if kwargs:
            if a.kwarg:
                env[a.kwarg.arg] = kwargs
            else:
                raise PyRaise(TypeError, f"unexpected keyword arguments {sorted(kwargs)}")
        elif a.kwarg:
            env[a.kwarg.arg] = {}

    # ------------------------------------------------------------------ statements
    def block(self, stmts, fr):
        for st in stmts:
            self.stmt(st, fr)

    def stmt(self, st, fr):
        self.steps += 1
        if self.steps > 200000:
            raise Undecided("step budget")
        m = getattr(self, "st_" + type(st).__name__, None)
        if m is None:
            raise Undecided(f"unsupported statement {type(st).__name__} at line {st.lineno}")
        return m(st, fr)

    def st_Expr(self, st, fr):
        if isinstance(st.value, ast.Constant):
            return      # docstring / ellipsis
        self.ev(st.value, fr)

    def st_Pass(self, st, fr):
        pass

    def st_FunctionDef(self, st, fr):
        # a nested function is only *defined* here; it is verified through the real closure object
        fr.env[st.name] = _NestedDef(st.name)

    def st_Assign(self, st, fr):
        v = self.ev(st.value, fr)
        for t in st.targets:
            self.assign(t, v, fr)

    def st_AnnAssign(self, st, fr):
        if st.value is not None:
            self.assign(st.target, self.ev(st.value, fr), fr)

    def st_AugAssign(self, st, fr):
        cur = self.ev(_as_load(st.target), fr)
        v = self.binop(st.op, cur, self.ev(st.value, fr))
        self.assign(st.target, v, fr)

    def st_Global(self, st, fr):
        self.ctx.effects.append(("global-stmt", tuple(st.names), self.where(st, fr)))

    def st_Nonlocal(self, st, fr):
        self.ctx.effects.append(("nonlocal-stmt", tuple(st.names), self.where(st, fr)))

    def st_Delete(self, st, fr):
        for t in st.targets:
            if isinstance(t, ast.Name):
                fr.env.pop(t.id, None)
            elif isinstance(t, ast.Subscript):
                o = self.ev(t.value, fr)
                k = self.ev(t.slice, fr)
                self.note_mutation(o, "del-item", t, fr)
                if isinstance(k, Sym):
                    raise Undecided("del with symbolic key")
                del o[k]
            else:
                raise Undecided("del target")

    def assign(self, t, v, fr):
        if isinstance(t, ast.Name):
            fr.env[t.id] = v
        elif isinstance(t, (ast.Tuple, ast.List)):
            vs = self.unpack(v, len(t.elts), any(isinstance(e, ast.Starred) for e in t.elts))
            if any(isinstance(e, ast.Starred) for e in t.elts):
                raise Undecided("starred assignment")
            for tt, vv in zip(t.elts, vs):
                self.assign(tt, vv, fr)
        elif isinstance(t, ast.Subscript):
            o = self.ev(t.value, fr)
            k = self.ev(t.slice, fr)
            self.note_mutation(o, "store-item", t, fr)
            if isinstance(o, (dict, list)):
                if isinstance(k, Sym):
                    raise Undecided("store with symbolic key")
                o[k] = v
            else:
                raise Undecided(f"subscript store on {type(o).__name__}")
        elif isinstance(t, ast.Attribute):
            o = self.ev(t.value, fr)
            self.ctx.effects.append(("attr-store", t.attr, self.where(t, fr), self.provenance(o, fr)))
            if isinstance(o, Sym):
                raise Undecided("attribute store on symbolic value")
            if id(o) in self.fresh_ids:
                setattr(o, t.attr, v)
            else:
                raise Undecided("attribute store on a non-fresh object")
        else:
            raise Undecided(f"assign target {type(t).__name__}")

    def unpack(self, v, n, star=False):
        if isinstance(v, SBytes):
            ln = v.length()
            if not self.ctx.entails(zint(ln) == n):
                if self.ctx.decide(zint(ln) == n):
                    pass
                else:
                    raise PyRaise(ValueError, "unpack length")
            return [self.byte_at(v, i) for i in range(n)]
        if isinstance(v, SSeq):
            if self.ctx.decide(v.n == n):
                return [v.item(i) for i in range(n)]
            raise PyRaise(ValueError, "unpack length")
        if isinstance(v, Sym):
            raise Undecided(f"unpack of {v!r}")
        try:
            vs = list(v)
        except TypeError:
            raise PyRaise(TypeError, "cannot unpack non-iterable")
        if len(vs) != n:
            raise PyRaise(ValueError, "unpack length")
        return vs

    def byte_at(self, b, i):
        """b[i] as an int for SBytes with concrete index"""
        pos = 0
        segs = list(b.segs)
        for _ in range(8):
            changed = False
            for j, s in enumerate(segs):
                if isinstance(s, Enc) and not (s.codec[0] in ("be", "le") and s.codec[1] == 1):
                    from spec import kafka
                    try:
                        segs[j:j + 1] = list(normalise(kafka.unfold(self.ctx, s)))
                        changed = True
                        break
                    except Undecided:
                        pass
            if not changed:
                break
        for s in segs:
            ln = s.length()
            if not isinstance(ln, int):
                if isinstance(s, Raw) and pos == i and self.ctx.entails(ln >= 1):
                    t = byteat(s.t, 0)
                    self.ctx.assume(z3.And(t >= 0, t <= 255))
                    return SInt(t)
                if isinstance(s, Raw) and self.ctx.entails(ln > i - pos):
                    t = byteat(s.t, i - pos)
                    self.ctx.assume(z3.And(t >= 0, t <= 255))
                    return SInt(t)
                raise Undecided("byte index into symbolic-length segment")
            if i < pos + ln:
                if isinstance(s, Lit):
                    return s.b[i - pos]
                if isinstance(s, Byte):
                    return lower(s.t)
                if isinstance(s, Enc) and s.codec[0] in ("be", "le") and s.codec[1] == 1:
                    v = zint(s.args[0])
                    return lower(z3.If(v < 0, v + 256, v)) if s.codec[2] else lower(v)
                if isinstance(s, Raw):
                    t = byteat(s.t, i - pos)
                    self.ctx.assume(z3.And(t >= 0, t <= 255))
                    return SInt(t)
                raise Undecided(f"byte index into {s!r}")
            pos += ln
        raise PyRaise(IndexError, "index out of range")

    def st_If(self, st, fr):
        if self.truth(self.ev(st.test, fr)):
            self.block(st.body, fr)
        else:
            self.block(st.orelse, fr)

    def st_While(self, st, fr):
        n = 0
        while self.truth(self.ev(st.test, fr)):
            n += 1
            if n > getattr(self, "max_unwind", 64):
                raise Undecided("loop unwinding bound exceeded without an invariant")
            try:
                self.block(st.body, fr)
            except BreakEx:
                return
            except ContinueEx:
                continue
        self.block(st.orelse, fr)

    def st_For(self, st, fr):
        it = self.ev(st.iter, fr)
        if isinstance(it, SOpt):
            from .models import resolve_opt
            it = resolve_opt(self.ctx, it)
            if it is None:
                raise PyRaise(TypeError, "'NoneType' object is not iterable")
        handler = getattr(self, "loop_handler", None)
        if isinstance(it, Sym):
            if handler is None:
                raise Undecided("loop over a symbolic iterable needs an invariant")
            return handler(self, st, it, fr)
        n = 0
        for x in self.iterate(it):
            n += 1
            if n > 4096:
                raise Undecided("concrete loop too long")
            self.assign(st.target, x, fr)
            try:
                self.block(st.body, fr)
            except BreakEx:
                return
            except ContinueEx:
                continue
        self.block(st.orelse, fr)

    def iterate(self, it):
        if isinstance(it, (range, tuple, list, dict, str, bytes, frozenset, set, types.GeneratorType)) or \
                type(it).__name__ in ("dict_items", "dict_values", "dict_keys", "mappingproxy", "enumerate",
                                      "zip", "count"):
            return it
        if isinstance(it, _LazyGen):
            return it.run()
        if isinstance(it, SBytes):
            # the bytes of a symbolic byte string as ints: its length is settled first (a path decision per possible
            # length, bounded), then each position is read
            n = it.length()
            if not isinstance(n, int):
                nt = zint(n)
                for k in range(0, 33):
                    if self.ctx.decide(nt == k):
                        n = k
                        break
                else:
                    raise Undecided("iteration over a byte string of unbounded symbolic length")
            return [self.byte_at(it, i) for i in range(n)]
        try:
            return iter(it)
        except TypeError:
            raise PyRaise(TypeError, "not iterable")

    def st_Return(self, st, fr):
        raise ReturnEx(self.ev(st.value, fr) if st.value is not None else None)

    def st_Break(self, st, fr):
        raise BreakEx()

    def st_Continue(self, st, fr):
        raise ContinueEx()

    def st_Assert(self, st, fr):
        if not self.truth(self.ev(st.test, fr)):
            raise PyRaise(AssertionError)

    def st_Raise(self, st, fr):
        if st.exc is None:
            cur = getattr(fr, "handling", None)
            if cur is None:
                raise PyRaise(RuntimeError, "no active exception")
            raise cur
        if isinstance(st.exc, ast.Call):
            cls = self.ev(st.exc.func, fr)
            for a in st.exc.args:
                self.ev(a, fr)          # evaluated for effects (message text dropped)
        else:
            cls = self.ev(st.exc, fr)
        if st.cause is not None:
            self.ev(st.cause, fr)
        if isinstance(cls, PyRaise):
            raise cls
        if isinstance(cls, BaseException):
            cls = type(cls)
        if not (isinstance(cls, type) and issubclass(cls, BaseException)):
            raise PyRaise(TypeError, "exceptions must derive from BaseException")
        raise PyRaise(cls)

    def st_Try(self, st, fr):
        try:
            try:
                self.block(st.body, fr)
            except PyRaise as r:
                for h in st.handlers:
                    hcls = self.ev(h.type, fr) if h.type is not None else BaseException
                    if isinstance(r.cls, type) and issubclass(r.cls, hcls):
                        if h.name:
                            fr.env[h.name] = r
                        prev = getattr(fr, "handling", None)
                        fr.handling = r
                        try:
                            self.block(h.body, fr)
                        finally:
                            fr.handling = prev
                        break
                else:
                    raise
            else:
                self.block(st.orelse, fr)
        finally:
            if st.finalbody:
                self.block(st.finalbody, fr)

    def st_With(self, st, fr):
        mgrs = []
        for item in st.items:
            cm = self.ev(item.context_expr, fr)
            enter = getattr(cm, "kvc_enter", None)
            if enter is None:
                if type(cm).__name__ == "_GeneratorContextManager" and not isinstance(cm, Sym):
                    # a @contextmanager generator with concrete arguments: entered and left natively
                    cm = _NativeCM(cm)
                    enter = cm.kvc_enter
                else:
                    raise Undecided(f"with on unmodelled context manager {type(cm).__name__}")
            v = enter()
            mgrs.append(cm)
            if item.optional_vars is not None:
                self.assign(item.optional_vars, v, fr)
        try:
            self.block(st.body, fr)
        except PyRaise:
            for cm in reversed(mgrs):
                (cm.kvc_exit_exc if hasattr(cm, "kvc_exit_exc") else cm.kvc_exit)()
            raise
        else:
            for cm in reversed(mgrs):
                cm.kvc_exit()

    def st_Match(self, st, fr):
        subj = self.ev(st.subject, fr)
        for case in st.cases:
            binds = {}
            if self.match(case.pattern, subj, binds, fr):
                saved = dict(fr.env)
                fr.env.update(binds)
                if case.guard is not None and not self.truth(self.ev(case.guard, fr)):
                    fr.env.clear(); fr.env.update(saved)
                    continue
                self.block(case.body, fr)
                return

    def match(self, p, v, binds, fr):
        if isinstance(p, ast.MatchValue):
            return self.truth(self.compare(ast.Eq(), v, self.ev(p.value, fr)))
        if isinstance(p, ast.MatchSingleton):
            return self.truth(self.compare(ast.Is(), v, p.value))
        if isinstance(p, ast.MatchAs):
            if p.pattern is not None and not self.match(p.pattern, v, binds, fr):
                return False
            if p.name:
                binds[p.name] = v
            return True
        if isinstance(p, ast.MatchOr):
            return any(self.match(q, v, binds, fr) for q in p.patterns)
        if isinstance(p, ast.MatchSequence):
            stars = [i for i, q in enumerate(p.patterns) if isinstance(q, ast.MatchStar)]
            if isinstance(v, SSeq):
                k = len(p.patterns) - len(stars)
                if stars:
                    if not self.ctx.decide(v.n >= k):
                        return False
                    si = stars[0]
                    for i, q in enumerate(p.patterns):
                        if i < si:
                            if not self.match(q, v.item(i), binds, fr):
                                return False
                        elif i > si:
                            off = len(p.patterns) - i      # from the end
                            if not self.match(q, v.item(lower(v.n - off)), binds, fr):
                                return False
                        elif q.name:
                            raise Undecided("binding a star pattern on a symbolic sequence")
                    return True
                if not self.ctx.decide(v.n == k):
                    return False
                return all(self.match(q, v.item(i), binds, fr) for i, q in enumerate(p.patterns))
            if isinstance(v, Sym):
                return False
            if not isinstance(v, (tuple, list)):
                return False
            if stars:
                si = stars[0]
                k = len(p.patterns) - 1
                if len(v) < k:
                    return False
                for i, q in enumerate(p.patterns[:si]):
                    if not self.match(q, v[i], binds, fr):
                        return False
                tail = p.patterns[si + 1:]
                for j, q in enumerate(tail):
                    if not self.match(q, v[len(v) - len(tail) + j], binds, fr):
                        return False
                if p.patterns[si].name:
                    binds[p.patterns[si].name] = list(v[si:len(v) - len(tail)])
                return True
            if len(v) != len(p.patterns):
                return False
            return all(self.match(q, x, binds, fr) for q, x in zip(p.patterns, v))
        if isinstance(p, ast.MatchClass):
            cls = self.ev(p.cls, fr)
            if not self.truth(self.isinstance_(v, cls)):
                return False
            if cls in (str, int, float, bool, bytes, tuple, list, dict) and len(p.patterns) == 1:
                return self.match(p.patterns[0], v, binds, fr)
            names = list(getattr(cls, "__match_args__", ()))[:len(p.patterns)]
            if len(names) < len(p.patterns):
                raise PyRaise(TypeError, "too many positional patterns")
            for name, q in list(zip(names, p.patterns)) + list(zip(p.kwd_attrs, p.kwd_patterns)):
                if not self.match(q, self.getattr_(v, name, fr), binds, fr):
                    return False
            return True
        raise Undecided(f"pattern {type(p).__name__}")

    # ------------------------------------------------------------------ expressions
    def ev(self, e, fr):
        m = getattr(self, "ex_" + type(e).__name__, None)
        if m is None:
            raise Undecided(f"unsupported expression {type(e).__name__} at line {getattr(e, 'lineno', '?')}")
        return m(e, fr)

    def ex_Constant(self, e, fr):
        return e.value

    def ex_Name(self, e, fr):
        if e.id in fr.env:
            return fr.env[e.id]
        if e.id in fr.globals:
            return fr.globals[e.id]
        if hasattr(builtins, e.id):
            return getattr(builtins, e.id)
        raise PyRaise(NameError, e.id)

    def ex_Tuple(self, e, fr):
        return tuple(self.ev(x, fr) for x in e.elts)

    def ex_List(self, e, fr):
        v = [self.ev(x, fr) for x in e.elts]
        self.fresh_ids.add(id(v)); self._keep(v)
        return v

    def ex_Set(self, e, fr):
        v = {self.ev(x, fr) for x in e.elts}
        self.fresh_ids.add(id(v)); self._keep(v)
        return v

    def ex_Dict(self, e, fr):
        v = {}
        for k, x in zip(e.keys, e.values):
            if k is None:
                v.update(self.ev(x, fr))
            else:
                v[self.ev(k, fr)] = self.ev(x, fr)
        self.fresh_ids.add(id(v)); self._keep(v)
        return v

    def _keep(self, v):
        self.__dict__.setdefault("_alive", []).append(v)

    def comp_iter(self, gens, fr, body, first_iter=None):
        g = gens[0]
        it = first_iter[0] if first_iter is not None else self.ev(g.iter, fr)
        if isinstance(it, Sym):
            raise Undecided("comprehension over symbolic iterable")
        for x in self.iterate(it):
            self.assign(g.target, x, fr)
            if all(self.truth(self.ev(c, fr)) for c in g.ifs):
                if len(gens) > 1:
                    yield from self.comp_iter(gens[1:], fr, body)
                else:
                    yield body()

    def ex_DictComp(self, e, fr):
        sub = Frame(fr.fn, dict(fr.env)); sub.globals = fr.globals
        v = {}
        for k, x in self.comp_iter(e.generators, sub, lambda: (self.ev(e.key, sub), self.ev(e.value, sub))):
            v[k] = x
        self.fresh_ids.add(id(v)); self._keep(v)
        return v

    def ex_ListComp(self, e, fr):
        handler = getattr(self, "genexp_handler", None)
        if handler is not None and len(e.generators) == 1 and not e.generators[0].ifs:
            # [elt for x in <symbolic iterable>]: the same inductive rule as for the generator expression; the result is
            # a symbolic sequence (any later mutation of it is outside the subset)
            g0 = e.generators[0]
            itv = self.ev(g0.iter, fr)            # evaluated exactly once (it may read from the stream)
            if isinstance(itv, Sym):
                return handler(self, _LazyGen(self, e, fr), (itv, g0.target, e.elt))
            sub = Frame(fr.fn, dict(fr.env)); sub.globals = fr.globals
            v = list(self.comp_iter(e.generators, sub, lambda: self.ev(e.elt, sub), first_iter=(itv,)))
            self.fresh_ids.add(id(v)); self._keep(v)
            return v
        sub = Frame(fr.fn, dict(fr.env)); sub.globals = fr.globals
        v = list(self.comp_iter(e.generators, sub, lambda: self.ev(e.elt, sub)))
        self.fresh_ids.add(id(v)); self._keep(v)
        return v

    def ex_SetComp(self, e, fr):
        sub = Frame(fr.fn, dict(fr.env)); sub.globals = fr.globals
        return set(self.comp_iter(e.generators, sub, lambda: self.ev(e.elt, sub)))

    def ex_GeneratorExp(self, e, fr):
        return _LazyGen(self, e, fr)

    def ex_IfExp(self, e, fr):
        return self.ev(e.body, fr) if self.truth(self.ev(e.test, fr)) else self.ev(e.orelse, fr)

    def ex_JoinedStr(self, e, fr):
        parts = []
        sym = False
        for v in e.values:
            if isinstance(v, ast.FormattedValue):
                x = self.ev(v.value, fr)
                if isinstance(x, Sym) or isinstance(x, PyRaise):
                    sym = True
                else:
                    try:
                        parts.append(format(x) if v.conversion == -1 else repr(x))
                    except Exception:
                        sym = True
            else:
                parts.append(v.value)
        return "<message>" if sym else "".join(parts)

    def ex_Lambda(self, e, fr):
        interp = self

        def lam(*args):
            sub = Frame(fr.fn, dict(fr.env)); sub.globals = fr.globals
            for p, a in zip(e.args.args, args):
                sub.env[p.arg] = a
            return interp.ev(e.body, sub)
        return lam

    def ex_NamedExpr(self, e, fr):
        v = self.ev(e.value, fr)
        fr.env[e.target.id] = v
        return v

    def ex_Attribute(self, e, fr):
        return self.getattr_(self.ev(e.value, fr), e.attr, fr, node=e)

    def ex_Subscript(self, e, fr):
        o = self.ev(e.value, fr)
        if isinstance(e.slice, ast.Slice):
            lo = self.ev(e.slice.lower, fr) if e.slice.lower else None
            hi = self.ev(e.slice.upper, fr) if e.slice.upper else None
            if e.slice.step is not None:
                raise Undecided("slice step")
            if isinstance(o, Sym) or isinstance(lo, Sym) or isinstance(hi, Sym):
                raise Undecided("symbolic slicing")
            return o[lo:hi]
        k = self.ev(e.slice, fr)
        return self.getitem(o, k, fr)

    def getitem(self, o, k, fr):
        if isinstance(o, SSeq):
            if isinstance(k, int) and not isinstance(k, bool) and k < 0:
                # seq[-j] is seq[len - j] (IndexError when the sequence is shorter than j)
                n = zint(o.n)
                if not self.ctx.decide(n >= -k):
                    raise PyRaise(IndexError, "tuple index out of range")
                return o.item(lower(z3.simplify(n + k)))
            return o.item(k if not isinstance(k, SInt) else k)
        if isinstance(o, SBytes) and isinstance(k, int):
            return self.byte_at(o, k)
        if isinstance(o, Sym):
            raise Undecided(f"subscript of {o!r}")
        if isinstance(k, Sym):
            # lookup with a symbolic key in a concrete mapping: fork over the keys
            if isinstance(o, (dict, types.MappingProxyType)):
                big = len(o) > 8
                for key in list(o.keys()):
                    c = self.compare(ast.Eq(), k, key)
                    t = self.truth_term(c)
                    if isinstance(t, bool):
                        hit = t
                    else:
                        hit = self.ctx.decide_nocheck(t) if big else self.ctx.decide(t)
                    if hit:
                        return o[key]
                raise PyRaise(KeyError, "symbolic key not in mapping")
            raise Undecided("symbolic subscript")
        try:
            return o[k]
        except (KeyError, IndexError, TypeError) as ex:
            raise PyRaise(type(ex))

    def ex_UnaryOp(self, e, fr):
        v = self.ev(e.operand, fr)
        if isinstance(e.op, ast.Not):
            t = self.truth_term(v)
            return (not t) if isinstance(t, bool) else SBool(z3.Not(t))
        if isinstance(v, (SInt, SBool)):
            if isinstance(e.op, ast.USub):
                return mk_int(-zint(v))
            if isinstance(e.op, ast.UAdd):
                return mk_int(zint(v))
            if isinstance(e.op, ast.Invert):
                return mk_int(-zint(v) - 1)
        if isinstance(v, Sym):
            raise Undecided("unary op on symbolic value")
        if isinstance(e.op, ast.USub):
            return -v
        if isinstance(e.op, ast.UAdd):
            return +v
        return ~v

    def ex_BoolOp(self, e, fr):
        if isinstance(e.op, ast.Or):
            for x in e.values[:-1]:
                v = self.ev(x, fr)
                if self.truth(v):
                    return v
            return self.ev(e.values[-1], fr)
        for x in e.values[:-1]:
            v = self.ev(x, fr)
            if not self.truth(v):
                return v
        return self.ev(e.values[-1], fr)

    def ex_Compare(self, e, fr):
        left = self.ev(e.left, fr)
        result = True
        for op, c in zip(e.ops, e.comparators):
            right = self.ev(c, fr)
            r = self.compare(op, left, right)
            if len(e.ops) == 1:
                return r
            if not self.truth(r):
                return False
            left = right
        return result

    def ex_BinOp(self, e, fr):
        return self.binop(e.op, self.ev(e.left, fr), self.ev(e.right, fr))

    def ex_Yield(self, e, fr):
        # generator bodies are run eagerly (pure generators only): the yielded values are collected
        if not hasattr(fr, "yields"):
            raise Undecided("yield outside a generator function")
        fr.yields.append(self.ev(e.value, fr) if e.value is not None else None)
        return None

    def ex_YieldFrom(self, e, fr):
        if not hasattr(fr, "yields"):
            raise Undecided("yield from outside a generator function")
        v = self.ev(e.value, fr)
        if isinstance(v, Sym):
            raise Undecided("yield from a symbolic iterable")
        fr.yields.extend(self.iterate(v))
        return None

    def ex_Starred(self, e, fr):
        raise Undecided("starred expression")

    def ex_Call(self, e, fr):
        f = self.ev(e.func, fr)
        args = []
        for a in e.args:
            if isinstance(a, ast.Starred):
                v = self.ev(a.value, fr)
                if isinstance(v, Sym):
                    raise Undecided("star-args of symbolic value")
                args.extend(v)
            else:
                args.append(self.ev(a, fr))
        kwargs = {}
        for k in e.keywords:
            if k.arg is None:
                v = self.ev(k.value, fr)
                if isinstance(v, Sym):
                    raise Undecided("** of symbolic value")
                kwargs.update(v)
            else:
                kwargs[k.arg] = self.ev(k.value, fr)
        return self.call(f, args, kwargs, fr, node=e)

    # ------------------------------------------------------------------ calls
    def call_memoized(self, f, args, kwargs, fr, node):
        """assumed contract of functools.lru_cache / functools.cache: the result of a *completed* earlier call
        whose arguments compare equal (==, same hash) - which, without typed=True, may be a value of another kind
        (1 == True == 1.0) or another bit pattern (0.0 == -0.0) - or else a fresh computation"""
        inner = f.__wrapped__
        self.ctx.effects.append(("memoized-call", getattr(inner, "__qualname__", "?"), self.where(node, fr)))
        try:
            typed = bool(f.cache_parameters().get("typed"))
        except Exception:       # noqa: BLE001
            typed = False
        alias = [self.equal_alias(a, typed) for a in args]
        if any(x is not y for x, y in zip(alias, args)):
            try:
                return self.call_function(inner, alias, kwargs)
            except PyRaise:
                pass            # a call that raised is not cached
        return self.call_function(inner, args, kwargs)

    def equal_alias(self, v, typed):
        from . import opaque
        ctx = self.ctx
        if isinstance(v, SOpaque) and v.kind == "float":
            if ctx.decide_free("memo_hit_with_equal_float"):
                c = z3.Const(ctx.fresh("equal_float"), opaque.F)
                ctx.assume(opaque.isfinite(c) == opaque.isfinite(v.t))      # e.g. -0.0 for 0.0: equal, other bits
                return SOpaque(c, "float")
            return v
        if typed:
            return v
        if isinstance(v, SInt):
            if ctx.decide_free("memo_hit_with_equal_float"):
                c = z3.Const(ctx.fresh("float_equal_to_int"), opaque.F)
                ctx.assume(opaque.isfinite(c))
                return SOpaque(c, "float")
            if ctx.decide_free("memo_hit_with_equal_bool") and ctx.decide(z3.Or(v.t == 0, v.t == 1)):
                return SBool(v.t == 1)
            return v
        if isinstance(v, SBool):
            if ctx.decide_free("memo_hit_with_equal_int"):
                return SInt(z3.If(v.t, z3.IntVal(1), z3.IntVal(0)))
            return v
        return v

    def call(self, f, args, kwargs, fr, node=None):
        if isinstance(f, SymMethod):
            return f(*args, **kwargs)
        if type(f).__name__ == "_lru_cache_wrapper" and (any(_has_sym(a) for a in args) or any(_has_sym(a) for a in kwargs.values())) \
                and self.summaries(f) is None:
            return self.call_memoized(f, args, kwargs, fr, node)
        model = None
        try:
            model = self.models.get(f)
        except TypeError:
            model = None
        if model is None and type(getattr(f, "__self__", None)).__name__ == "Struct" and getattr(f, "__name__", "") in ("pack", "unpack"):
            # a precompiled struct.Struct: same contract as the module-level functions
            import struct as _struct
            fmt = f.__self__.format
            model = (lambda it, fr_, *a: self.models[_struct.pack](it, fr_, fmt, *a)) if f.__name__ == "pack" else \
                (lambda it, fr_, *a: self.models[_struct.unpack](it, fr_, fmt, *a))
        if model is None and isinstance(getattr(f, "__self__", None), (bytes, bytearray)) and getattr(f, "__name__", "") == "join" \
                and not isinstance(getattr(f, "__self__", None), bytearray) and f.__self__ == b"":
            def model(it, fr_, parts):
                if isinstance(parts, Sym):
                    raise Undecided("bytes.join over a symbolic iterable")
                segs = []
                for x in self.iterate(parts):
                    segs.extend(as_bytes(x))
                return SBytes(segs)
        if model is not None:
            return model(self, fr, *args, **kwargs)
        summ = self.summaries(f)
        if summ is not None:
            return summ.apply(self, args, kwargs)
        sym = any(_has_sym(a) for a in args) or any(_has_sym(a) for a in kwargs.values())
        if sym and isinstance(f, type):
            import enum
            from . import models as _m
            if type(f).__name__ == "PhantomMeta" and not self.inline(f):
                if len(args) != 1 or kwargs:
                    raise PyRaise(TypeError, "phantom constructor takes one argument")
                return _m.phantom_call(self, f, args[0])
            if issubclass(f, enum.Enum):
                return _m.make_enum_model(f)(self, fr, *args)
        target = getattr(f, "__func__", f)
        if isinstance(target, types.FunctionType) and self.inline(target):
            if hasattr(f, "__self__"):
                args = [f.__self__] + list(args)
            return self.call_function(target, args, kwargs)
        if isinstance(f, type) and dataclasses.is_dataclass(f) and (sym or getattr(self, "symbolic_records", False)):
            return self.construct_record(f, args, kwargs)
        if sym:
            fb, fb_args = f, args
            if isinstance(f, types.MethodType) and isinstance(f.__func__, types.FunctionType) \
                    and (isinstance(f.__self__, type) or isinstance(f.__self__, Sym)):
                fb, fb_args = f.__func__, [f.__self__] + list(args)      # classmethod / method of a symbolic record
            if isinstance(fb, types.FunctionType) and self.inline_fallback(fb):
                self._fallback_depth = getattr(self, "_fallback_depth", 0) + 1
                if not hasattr(self.ctx, "inlined"):
                    self.ctx.inlined = {}
                self.ctx.inlined[f"{fb.__module__}:{fb.__qualname__}"] = fb
                try:
                    return self.call_function(fb, fb_args, kwargs)
                finally:
                    self._fallback_depth -= 1
            owner = getattr(f, "__self__", None)
            if isinstance(owner, (dict, types.MappingProxyType)) and getattr(f, "__name__", "") == "get" \
                    and not kwargs and 1 <= len(args) <= 2 and not isinstance(owner, Sym):
                # read-only lookup with a symbolic key in a concrete mapping: d[k] if k in d else default
                try:
                    return self.getitem(owner, args[0], fr)
                except PyRaise as r:
                    if r.cls is KeyError:
                        return args[1] if len(args) == 2 else None
                    raise
            if owner is not None and id(owner) in self.fresh_ids and isinstance(owner, (list, dict, set)):
                return f(*args, **kwargs)        # a container created by this very activation
            if owner is not None and not isinstance(owner, (type, types.ModuleType)) and not isinstance(owner, IMMUTABLE_TYPES) \
                    and id(owner) not in self.fresh_ids and getattr(f, "__name__", "") in READONLY_METHODS \
                    and isinstance(owner, (dict, list, set, frozenset, tuple, types.MappingProxyType)):
                raise Undecided(f"read-only method {type(owner).__name__}.{f.__name__} of a shared container with symbolic "
                                f"arguments has no model")
            if owner is not None and not isinstance(owner, (type, types.ModuleType)) and not isinstance(owner, IMMUTABLE_TYPES) \
                    and id(owner) not in self.fresh_ids:
                self.ctx.effects.append(("call-on-shared", f"{type(owner).__name__}.{getattr(f, '__name__', '?')}",
                                         self.where(node, fr), self.provenance(owner, fr)))
                raise FrameViolation(f"FRAME: method {type(owner).__name__}.{getattr(f, '__name__', '?')} called on a shared "
                                     f"object ({self.provenance(owner, fr)}) with data of this call")
            raise Undecided(f"call of {getattr(f, '__qualname__', f)!r} with symbolic arguments has no contract/model")
        # concrete call: check it cannot mutate shared state
        self.note_call(f, fr, node)
        try:
            return f(*args, **kwargs)
        except Exception as ex:     # a native exception is a path outcome
            raise PyRaise(type(ex), str(ex))

    def inline_fallback(self, f):
        """A repository function that carries no contract is verified as part of its callers' bodies
        (the usual treatment of un-annotated private helpers): its real source is executed in place.
        Bounded nesting, so that recursion through un-contracted helpers ends in 'undecided'."""
        mod = getattr(f, "__module__", "") or ""
        if not (mod == "kio" or mod.startswith("kio.") or mod == "codegen" or mod.startswith("codegen.")):
            return False
        if getattr(self, "_fallback_depth", 0) >= 4:
            return False
        try:
            funcdef_of(f)
        except Exception:        # noqa: BLE001
            return False
        return True

    def construct_record(self, cls, args, kwargs):
        if args:
            raise PyRaise(TypeError, "positional arguments to kw_only dataclass")
        names = [f.name for f in dataclasses.fields(cls)]
        fields = {}
        for f in dataclasses.fields(cls):
            if f.name in kwargs:
                fields[f.name] = kwargs[f.name]
            elif f.default is not dataclasses.MISSING:
                fields[f.name] = f.default
            elif f.default_factory is not dataclasses.MISSING:
                raise Undecided("default_factory")
            else:
                raise PyRaise(TypeError, f"missing field {f.name}")
        extra = set(kwargs) - set(names)
        if extra:
            raise PyRaise(TypeError, f"unexpected fields {sorted(extra)}")
        return SRec(cls, fields)

    def note_call(self, f, fr, node):
        owner = getattr(f, "__self__", None)
        name = getattr(f, "__name__", "")
        if owner is None or isinstance(owner, (type, types.ModuleType)) or isinstance(owner, IMMUTABLE_TYPES):
            return
        if id(owner) in self.fresh_ids:
            return
        if name in READONLY_METHODS:
            return
        self.ctx.effects.append(("call-on-shared", f"{type(owner).__name__}.{name}", self.where(node, fr),
                                 self.provenance(owner, fr)))
        import collections
        if not isinstance(owner, (dict, list, set, bytearray, io.IOBase, collections.deque)):
            return          # not a data container (e.g. a logger): recorded, executed natively
        raise FrameViolation(f"FRAME: possibly mutating method {type(owner).__name__}.{name} called on a shared object "
                             f"({self.provenance(owner, fr)})")

    def note_mutation(self, o, kind, node, fr):
        if id(o) in self.fresh_ids:
            return
        self.ctx.effects.append((kind, type(o).__name__, self.where(node, fr), self.provenance(o, fr)))
        raise FrameViolation(f"FRAME: {kind} on a non-fresh {type(o).__name__} ({self.provenance(o, fr)})")

    def provenance(self, o, fr):
        if id(o) in self.fresh_ids:
            return "fresh"
        for k, v in fr.globals.items():
            if v is o:
                return f"global:{k}"
        if fr.fn is not None and fr.fn.__closure__:
            for name, cell in zip(fr.fn.__code__.co_freevars, fr.fn.__closure__):
                try:
                    if cell.cell_contents is o:
                        return f"captured:{name}"
                except ValueError:
                    pass
        for k, v in fr.env.items():
            if v is o:
                return f"local/param:{k}"
        return "unknown"

    def where(self, node, fr):
        fn = fr.fn
        return f"{getattr(fn, '__module__', '?')}:{getattr(fn, '__qualname__', '?')}:{getattr(node, 'lineno', '?')}"

    # ------------------------------------------------------------------ attribute access
    def getattr_(self, o, name, fr, node=None):
        if isinstance(o, SRec):
            if name in o.fields:
                return o.fields[name]
            try:
                static = inspect.getattr_static(o.cls, name)
            except AttributeError:
                raise PyRaise(AttributeError, name)
            if isinstance(static, types.FunctionType):
                interp = self
                return SymMethod(lambda *a, **k: interp.call(static, [o] + list(a), k, fr, node=node), name)
            if isinstance(static, property):
                return self.call(static.fget, [o], {}, fr, node=node)
            if isinstance(static, classmethod):
                interp = self
                return SymMethod(lambda *a, **k: interp.call(static.__func__, [o.cls] + list(a), k, fr, node=node), name)
            if isinstance(static, staticmethod):
                return static.__func__
            try:
                return getattr(o.cls, name)
            except AttributeError:
                raise PyRaise(AttributeError, name)
        if isinstance(o, SOpt):
            if self.ctx.decide(o.is_none):
                raise PyRaise(AttributeError, f"None.{name}")
            return self.getattr_(o.val, name, fr, node)
        hook = getattr(o, "kvc_getattr", None)
        if hook is not None:
            return hook(self, name, fr, node)
        if isinstance(o, Sym):
            from . import models
            return models.sym_attr(self, o, name, fr, node)
        if isinstance(o, PyRaise):
            raise Undecided("attribute of exception object")
        try:
            return getattr(o, name)
        except AttributeError:
            raise PyRaise(AttributeError, name)

    # ------------------------------------------------------------------ truth, compare, arithmetic
    def truth_term(self, v):
        if isinstance(v, SBool):
            return v.t
        if isinstance(v, SInt):
            return v.t != 0
        if isinstance(v, SOpt):
            # None is falsy; the payload's own truth applies otherwise
            inner = self.truth_term(v.val)
            return z3.And(z3.Not(v.is_none), tobool(inner))
        if isinstance(v, SStr):
            return v.t != z3.StringVal("")
        if isinstance(v, SBytes):
            ln = v.length()
            return ln != 0 if not isinstance(ln, int) else ln != 0
        if isinstance(v, SSeq):
            return v.n != 0
        if isinstance(v, SRec):
            return True
        if isinstance(v, SOpaque) and v.kind == "float":
            # bool(x) of a float: false exactly for the two zeros, +0.0 and -0.0 (two distinct bit patterns)
            from . import opaque
            b0, bn = opaque.literal("bytes", bytes(8)), opaque.literal("bytes", b"\x80" + bytes(7))
            bits = opaque.f64bits(v.t)
            self.ctx.assume(opaque.f64of(bits) == v.t)
            return z3.Not(z3.Or(bits == b0, bits == bn))
        if isinstance(v, SOpaque):
            from . import opaque
            return opaque.truth(v)
        if type(v).__name__ == "SFloat":
            from . import fpmodel
            return fpmodel.truth(v)
        if z3.is_expr(v):
            return v
        if isinstance(v, Sym):
            raise Undecided(f"truth of {v!r}")
        return bool(v)

    def truth(self, v):
        t = self.truth_term(v)
        if isinstance(t, bool):
            return t
        return self.ctx.decide(t)

    def compare(self, op, a, b):
        if isinstance(op, (ast.Is, ast.IsNot)):
            r = self.is_(a, b)
            if isinstance(op, ast.IsNot):
                return (not r) if isinstance(r, bool) else SBool(z3.Not(tobool(r)))
            return r if isinstance(r, bool) else SBool(tobool(r))
        if isinstance(op, (ast.Eq, ast.NotEq)):
            r = sym_eq(a, b, self.ctx)
            if isinstance(op, ast.NotEq):
                return (not r) if isinstance(r, bool) else SBool(z3.Not(tobool(r)))
            return r if isinstance(r, bool) else SBool(tobool(r))
        if isinstance(op, (ast.In, ast.NotIn)):
            if isinstance(b, Sym):
                raise Undecided("membership in symbolic container")
            if isinstance(a, Sym):
                terms = [tobool(sym_eq(a, x)) for x in b]
                r = z3.Or(*terms) if terms else False
            else:
                r = a in b
            if isinstance(op, ast.NotIn):
                return (not r) if isinstance(r, bool) else SBool(z3.Not(r))
            return r if isinstance(r, bool) else SBool(r)
        if type(a).__name__ == "SInstantSeconds" or type(b).__name__ == "SInstantSeconds":
            from . import dtmodel
            return dtmodel.compare_instant(self, op, a, b)
        if type(a).__name__ == "SFloat" or type(b).__name__ == "SFloat":
            from . import fpmodel
            return fpmodel.compare(self, op, a, b)
        if isinstance(a, SOpaque) or isinstance(b, SOpaque):
            from . import opaque
            return opaque.compare(self, op, a, b)
        if isinstance(a, (SInt, SBool)) or isinstance(b, (SInt, SBool)):
            if isinstance(a, float) or isinstance(b, float):
                # an int against +-infinity is decided by the sign of the infinity (exact)
                import math
                f, other_is_left = (a, False) if isinstance(a, float) else (b, True)
                if math.isinf(f):
                    pos = f > 0
                    if other_is_left:      # int <op> inf
                        return {ast.Lt: pos, ast.LtE: pos, ast.Gt: not pos, ast.GtE: not pos}[type(op)]
                    return {ast.Lt: not pos, ast.LtE: not pos, ast.Gt: pos, ast.GtE: pos}[type(op)]
                if f == int(f):
                    a, b = (int(a) if isinstance(a, float) else a), (int(b) if isinstance(b, float) else b)
                else:
                    raise Undecided("float comparison")
            x, y = zint(a), zint(b)
            t = {ast.Lt: x < y, ast.LtE: x <= y, ast.Gt: x > y, ast.GtE: x >= y}[type(op)]
            return lower(t)
        if isinstance(a, Sym) or isinstance(b, Sym):
            raise Undecided(f"ordering comparison of {a!r} and {b!r}")
        import operator
        try:
            return {ast.Lt: operator.lt, ast.LtE: operator.le, ast.Gt: operator.gt, ast.GtE: operator.ge}[type(op)](a, b)
        except TypeError:
            raise PyRaise(TypeError, "unorderable")

    def is_(self, a, b):
        if isinstance(a, SOpt) and b is None:
            return a.is_none
        if isinstance(b, SOpt) and a is None:
            return b.is_none
        if b is None or a is None:
            if isinstance(a, Sym) or isinstance(b, Sym):
                return False
            return a is b
        if isinstance(a, Sym) or isinstance(b, Sym):
            if a is b:
                return True
            # identity of enum members / small constants decided by equality
            other = b if isinstance(a, Sym) else a
            import enum
            if isinstance(other, (enum.Enum, bool)):
                return sym_eq(a, b)
            raise Undecided("identity comparison of symbolic values")
        return a is b

    def isinstance_(self, v, cls):
        from . import models
        return models.isinstance_model(self, v, cls)

    def binop(self, op, a, b):
        if not isinstance(a, Sym) and not isinstance(b, Sym):
            import operator
            fn = {ast.Add: operator.add, ast.Sub: operator.sub, ast.Mult: operator.mul, ast.Div: operator.truediv,
                  ast.FloorDiv: operator.floordiv, ast.Mod: operator.mod, ast.Pow: operator.pow,
                  ast.LShift: operator.lshift, ast.RShift: operator.rshift, ast.BitOr: operator.or_,
                  ast.BitAnd: operator.and_, ast.BitXor: operator.xor}[type(op)]
            try:
                return fn(a, b)
            except Exception as ex:
                raise PyRaise(type(ex))
        if isinstance(a, SOpt) or isinstance(b, SOpt):
            # an optional operand: its None-ness is a decision of the path (None then fails like in Python)
            from .models import resolve_opt
            a = resolve_opt(self.ctx, a) if isinstance(a, SOpt) else a
            b = resolve_opt(self.ctx, b) if isinstance(b, SOpt) else b
            if a is None or b is None:
                raise PyRaise(TypeError, "unsupported operand type(s): NoneType")
            return self.binop(op, a, b)
        if type(a).__name__ == "SByteArray" and isinstance(op, ast.Add) and isinstance(b, (SBytes, bytes)):
            return type(a)(tuple(a.segs) + tuple(as_bytes(b)))
        if isinstance(a, SBytes) or isinstance(b, SBytes):
            if isinstance(op, ast.Add):
                return SBytes(as_bytes(a) + as_bytes(b))
            raise Undecided("bytes operator")
        from . import fpmodel
        if type(a).__name__ == "SInstantSeconds":
            a = fpmodel.total_seconds(self, a.us)       # dt.timestamp() entering arithmetic: the double it is
        if type(b).__name__ == "SInstantSeconds":
            b = fpmodel.total_seconds(self, b.us)
        if isinstance(a, fpmodel.SFloat) or isinstance(b, fpmodel.SFloat):
            return fpmodel.binop(self, op, a, b)
        if isinstance(a, SOpaque) or isinstance(b, SOpaque):
            from . import opaque
            return opaque.binop(self, op, a, b)
        if isinstance(a, float) or isinstance(b, float):
            if isinstance(a, (SInt, SBool, float)) and isinstance(b, (SInt, SBool, float)):
                return fpmodel.binop(self, op, a, b)
            raise Undecided("float arithmetic (outside the subset)")
        if isinstance(op, ast.Div) and isinstance(a, (SInt, SBool, int)) and isinstance(b, (SInt, SBool, int)):
            return fpmodel.true_div_ints(self, a, b)
        if not isinstance(a, (SInt, SBool, int)) or not isinstance(b, (SInt, SBool, int)):
            raise Undecided(f"operator {type(op).__name__} on {a!r}, {b!r}")
        from .intops import int_binop
        return int_binop(self.ctx, op, a, b)


class _NativeCM:
    """a real contextlib generator context manager, driven natively"""

    def __init__(self, cm):
        self.cm = cm

    def kvc_enter(self):
        return self.cm.__enter__()

    def kvc_exit(self):
        self.cm.__exit__(None, None, None)

    def kvc_exit_exc(self):
        # the body raised: the generator sees an exception at its yield
        class _BodyRaised(Exception):
            pass
        try:
            self.cm.__exit__(_BodyRaised, _BodyRaised("exception in the with-body"), None)
        except _BodyRaised:
            pass


class _NestedDef:
    """placeholder for a function defined inside a body that is being scanned"""

    def __init__(self, name):
        self.__name__ = self.__qualname__ = name

    def __call__(self, *a, **k):
        raise Undecided(f"call of the nested definition {self.__name__} inside a scanned body")


class SymMethod:
    """bound method of a symbolic object / model object"""

    def __init__(self, fn, name=""):
        self.fn = fn
        self.name = name

    def __call__(self, *a, **k):
        return self.fn(*a, **k)


class _LazyGen:
    """generator expression; evaluated when consumed by tuple()/max()/all()..."""

    def __init__(self, interp, node, fr):
        self.interp, self.node, self.fr = interp, node, fr

    def run(self):
        it = self.interp
        sub = Frame(self.fr.fn, dict(self.fr.env)); sub.globals = self.fr.globals
        return it.comp_iter(self.node.generators, sub, lambda: it.ev(self.node.elt, sub))

    def symbolic_source(self):
        """(iterable value, target, elt) when the single generator ranges over a symbolic iterable"""
        g = self.node.generators
        if len(g) != 1 or g[0].ifs:
            return None
        itv = self.interp.ev(g[0].iter, self.fr)
        return itv, g[0].target, self.node.elt


def _as_load(t):
    import copy
    t2 = copy.copy(t)
    t2.ctx = ast.Load()
    return t2


def _has_sym(v):
    if isinstance(v, Sym):
        return True
    if isinstance(v, (tuple, list)):
        return any(_has_sym(x) for x in v)
    if isinstance(v, dict):
        return any(_has_sym(x) for x in v.values())
    hook = getattr(v, "kvc_symbolic", None)
    return bool(hook)
