"""kvc core: symbolic values, byte segments, path context (decisions, facts, obligations).

Everything symbolic is a z3 term over: Int (Python ints are unbounded, so mathematical ints
are exact), Bool, String (Python str; only equality and uninterpreted functions are used on
it), and an uninterpreted sort B of byte strings whose structure the engine maintains itself
as a list of segments (free-monoid normal form) with abstract lengths `blen`.
"""
from __future__ import annotations

import itertools
import os
import z3

SOLVER_TIMEOUT_MS = int(os.environ.get("KVC_TIMEOUT_MS", "10000"))
FEAS_TIMEOUT_MS = int(os.environ.get("KVC_FEAS_TIMEOUT_MS", "3000"))

I = z3.IntSort()
Bsort = z3.DeclareSort("B")
Ssort = z3.StringSort()
blen = z3.Function("blen", Bsort, I)
bslice = z3.Function("bslice", Bsort, I, I, Bsort)      # bytes[i:j]
byteat = z3.Function("byteat", Bsort, I, I)             # bytes[i] as int
utf8 = z3.Function("utf8", Ssort, Bsort)                # str.encode()
utf8dec = z3.Function("utf8dec", Bsort, Ssort)          # bytes.decode() when valid
valid_utf8 = z3.Function("valid_utf8", Bsort, z3.BoolSort())
encodable = z3.Function("encodable", Ssort, z3.BoolSort())  # no lone surrogates
ulen = z3.Function("ulen", Ssort, I)                     # len(s.encode())
clen = z3.Function("clen", Ssort, I)                     # len(s): number of code points
isascii = z3.Function("isascii", Ssort, z3.BoolSort())   # s.isascii()


def str_facts(t):
    """relations between the abstract measures of a string: code points vs UTF-8 bytes (1..4 bytes per code point; exactly
    one per code point iff the string is ASCII)"""
    return [clen(t) >= 0, clen(t) <= ulen(t), ulen(t) <= 4 * clen(t), isascii(t) == (ulen(t) == clen(t))]


class Undecided(Exception):
    """The engine cannot decide (unsupported construct / solver unknown). Never a violation."""


class PyRaise(Exception):
    """A Python exception raised by the code under execution (a path outcome)."""

    def __init__(self, cls, note=""):
        super().__init__(getattr(cls, "__name__", str(cls)))
        self.cls = cls
        self.note = note


# --------------------------------------------------------------------------- symbolic values
class Sym:
    pass


class SInt(Sym):
    __slots__ = ("t",)

    def __init__(self, t):
        self.t = t

    def __repr__(self):
        return f"SInt({self.t})"


class SBool(Sym):
    __slots__ = ("t",)

    def __init__(self, t):
        self.t = t

    def __repr__(self):
        return f"SBool({self.t})"


class SStr(Sym):
    __slots__ = ("t",)

    def __init__(self, t):
        self.t = t

    def __repr__(self):
        return f"SStr({self.t})"


class SOpaque(Sym):
    """A value of a Python type the engine only compares for equality (float, UUID, ...)."""
    __slots__ = ("t", "kind", "aux")

    def __init__(self, t, kind, aux=None):
        self.t = t
        self.kind = kind
        self.aux = aux

    def __repr__(self):
        return f"SOpaque[{self.kind}]({self.t})"


class SOpt(Sym):
    """value-or-None; `is_none` is a z3 Bool."""
    __slots__ = ("is_none", "val")

    def __init__(self, is_none, val):
        self.is_none = is_none
        self.val = val

    def __repr__(self):
        return f"SOpt({self.is_none}, {self.val})"


class SRec(Sym):
    """Instance of a (data)class: concrete class, symbolic/concrete field map."""
    __slots__ = ("cls", "fields")

    def __init__(self, cls, fields):
        self.cls = cls
        self.fields = fields

    def __repr__(self):
        return f"SRec({self.cls.__name__}, {list(self.fields)})"


class SSeq(Sym):
    """Immutable sequence of symbolic length. `item(k)` gives the value at a (concrete or
    symbolic) index lazily; `n` is a z3 Int >= 0."""
    __slots__ = ("n", "name", "mk", "_cache", "item_desc", "ctx", "_idx", "base_records")

    def __init__(self, n, name, mk):
        self.n = n
        self.name = name
        self.mk = mk
        self._cache = {}
        self.item_desc = None
        self.ctx = None        # when set, items at provably-equal indices are tied together
        self._idx = {}
        self.base_records = None

    def item(self, k):
        key = k if isinstance(k, int) else str(k)
        if key not in self._cache:
            it = self.mk(k)
            self._cache[key] = it
            self._idx[key] = zint(k)
            if self.ctx is not None:
                # the same position denotes the same element: index equality implies item equality
                for key2, it2 in self._cache.items():
                    if key2 == key:
                        continue
                    same = z3.simplify(self._idx[key] == self._idx[key2])
                    if z3.is_false(same):
                        continue
                    try:
                        eq = leaf_equalities(it, it2)
                    except Undecided:
                        continue
                    if eq:
                        self.ctx.assume(z3.Implies(same, z3.And(*eq)))
        return self._cache[key]

    def __repr__(self):
        return f"SSeq({self.name}, n={self.n})"


# --------------------------------------------------------------------------- byte segments
class Seg:
    pass


class Lit(Seg):
    __slots__ = ("b",)

    def __init__(self, b):
        self.b = bytes(b)

    def length(self):
        return len(self.b)

    def __repr__(self):
        return f"Lit({self.b.hex()})"


class Byte(Seg):
    """one byte with symbolic int value (0..255, established at construction)"""
    __slots__ = ("t",)

    def __init__(self, t):
        self.t = t

    def length(self):
        return 1

    def __repr__(self):
        return f"Byte({self.t})"


class Raw(Seg):
    """opaque bytes given by a z3 term of sort B"""
    __slots__ = ("t",)

    def __init__(self, t):
        self.t = t

    def length(self):
        return blen(self.t)

    def __repr__(self):
        return f"Raw({self.t})"


class Enc(Seg):
    """`codec(args)`: an opaque *spec* encoding (spec/kafka.py gives length, unfolding and the
    concrete interpretation)."""
    __slots__ = ("codec", "args", "_len")

    def __init__(self, codec, *args):
        self.codec = codec
        self.args = args
        self._len = None

    def length(self):
        if self._len is None:
            from spec import kafka
            self._len = kafka.enc_length(self)
        return self._len

    def __repr__(self):
        return f"{self.codec}({', '.join(map(repr, self.args))})"


class SBytes(Sym):
    __slots__ = ("segs",)

    def __init__(self, segs):
        self.segs = normalise(segs)

    def length(self):
        return total_len(self.segs)

    def __repr__(self):
        return f"SBytes({list(self.segs)})"


def normalise(segs):
    out = []
    for s in segs:
        if isinstance(s, Lit):
            if not s.b:
                continue
            if out and isinstance(out[-1], Lit):
                out[-1] = Lit(out[-1].b + s.b)
                continue
        elif isinstance(s, Enc) and len(s.args) == 1 and not _contains_sym(s.args[0]) and s.codec[0] in ("be", "le", "bool", "uv", "sv", "clen") and s.args[0] is not None:
            from spec import kafka
            try:
                s = Lit(kafka.concrete(s.codec, s.args[0]))
            except Exception:
                out.append(s)
                continue
            if not s.b:
                continue
            if out and isinstance(out[-1], Lit):
                out[-1] = Lit(out[-1].b + s.b)
                continue
        elif isinstance(s, Byte) and z3.is_int_value(z3.simplify(s.t)):
            v = z3.simplify(s.t).as_long()
            if 0 <= v <= 255:
                s = Lit(bytes([v]))
                if out and isinstance(out[-1], Lit):
                    out[-1] = Lit(out[-1].b + s.b)
                    continue
        out.append(s)
    return tuple(out)


def _contains_sym(v):
    if isinstance(v, Sym):
        return True
    if isinstance(v, (tuple, list)):
        return any(_contains_sym(x) for x in v)
    return False


def total_len(segs):
    conc = 0
    terms = []
    for s in segs:
        ln = s.length()
        if isinstance(ln, int):
            conc += ln
        else:
            terms.append(ln)
    if not terms:
        return conc
    t = terms[0]
    for x in terms[1:]:
        t = t + x
    return t + conc if conc else t


def as_bytes(v):
    """bytes-like python/symbolic value -> tuple of segments"""
    if isinstance(v, SBytes):
        return v.segs
    if isinstance(v, (bytes, bytearray)):
        return normalise([Lit(bytes(v))])
    raise Undecided(f"not bytes: {v!r}")


def zint(v):
    """python int / SInt -> z3 Int term"""
    if isinstance(v, SInt):
        return v.t
    if isinstance(v, bool):
        return z3.IntVal(int(v))
    if isinstance(v, int):
        return z3.IntVal(v)
    if isinstance(v, SBool):
        return z3.If(v.t, z3.IntVal(1), z3.IntVal(0))
    if z3.is_expr(v):
        return v
    raise Undecided(f"not an int: {v!r}")


def lower(v):
    """z3 value term -> python value when it is a literal, else a Sym wrapper"""
    if isinstance(v, Sym) or not z3.is_expr(v):
        return v
    s = z3.simplify(v)
    if z3.is_int_value(s):
        return s.as_long()
    if z3.is_true(s):
        return True
    if z3.is_false(s):
        return False
    if z3.is_string_value(s):
        return s.as_string()
    if z3.is_int(s):
        return SInt(s)
    if z3.is_bool(s):
        return SBool(s)
    if s.sort() == Ssort:
        return SStr(s)
    return v


def mk_int(t):
    return lower(t if z3.is_expr(t) else z3.IntVal(t))


# --------------------------------------------------------------------------- obligations
class Obligation:
    __slots__ = ("name", "pc", "goal", "kind", "info", "status", "model", "backend", "time")

    def __init__(self, name, pc, goal, kind="symbolic", info=None):
        self.name = name
        self.pc = list(pc)
        self.goal = goal          # z3 Bool, or python bool for ground facts
        self.kind = kind
        self.info = info or {}
        self.status = None        # 'discharged' | 'refuted' | 'undecided'
        self.model = None
        self.backend = None
        self.time = 0.0


# --------------------------------------------------------------------------- path context
class Ctx:
    """One execution path: decision oracle + path condition + facts + obligations."""

    def __init__(self, prefix=(), prune=True):
        self.prefix = list(prefix)
        self.taken = []
        self.pc = []            # decisions and assumptions, in order
        self.obligations = []
        self.effects = []       # frame / interface events
        self.notes = []
        self.prune = prune
        self._n = itertools.count()
        self._solver = None
        self._pushed = 0
        self.inputs = {}        # name -> z3 const (for model concretisation)
        self.reads = 0
        self.writes = 0

    # ---- naming
    def fresh(self, base):
        return f"{base}!{next(self._n)}"

    def int_const(self, name, lo=None, hi=None):
        c = z3.Int(name)
        self.inputs[name] = c
        if lo is not None:
            self.assume(c >= lo)
        if hi is not None:
            self.assume(c <= hi)
        return c

    def bool_const(self, name):
        c = z3.Bool(name)
        self.inputs[name] = c
        return c

    def str_const(self, name):
        c = z3.Const(name, Ssort)
        self.inputs[name] = c
        self.assume(ulen(c) >= 0)
        return c

    def bytes_const(self, name):
        c = z3.Const(name, Bsort)
        self.inputs[name] = c
        self.assume(blen(c) >= 0)
        return c

    # ---- solver
    def _sol(self):
        if self._solver is None:
            self._solver = z3.Solver()
            self._pushed = 0
            self._nlit = -1
        from . import opaque
        nlit = sum(len(r) for r in opaque._literals.values())
        if nlit != self._nlit:
            for f in opaque.literal_facts():
                self._solver.add(f)
            self._nlit = nlit
        while self._pushed < len(self.pc):
            self._solver.add(self.pc[self._pushed])
            self._pushed += 1
        return self._solver

    def check(self, *extra, timeout=FEAS_TIMEOUT_MS):
        s = self._sol()
        s.set("timeout", timeout)
        s.push()
        try:
            for e in extra:
                s.add(e)
            return s.check()
        finally:
            s.pop()

    def feasible(self, phi):
        phi = z3.simplify(phi) if z3.is_expr(phi) else z3.BoolVal(bool(phi))
        if z3.is_true(phi):
            return self.check() != z3.unsat if False else True
        if z3.is_false(phi):
            return False
        return self.check(phi) != z3.unsat

    def entails(self, phi):
        if not z3.is_expr(phi):
            return bool(phi)
        phi = z3.simplify(phi)
        if z3.is_true(phi):
            return True
        if z3.is_false(phi):
            return self.check() == z3.unsat
        return self.check(z3.Not(phi)) == z3.unsat

    def assume(self, phi):
        if z3.is_expr(phi):
            phi = z3.simplify(phi)
            if z3.is_true(phi):
                return
        elif phi:
            return
        else:
            phi = z3.BoolVal(False)
        self.pc.append(phi)

    def oblige(self, name, phi, **info):
        """side obligation at the current point (callee precondition, range condition...)"""
        if not z3.is_expr(phi):
            phi = z3.BoolVal(bool(phi))
        self.obligations.append(Obligation(name, self.pc, phi, info=info))
        # after the obligation it may be assumed (it is checked separately)
        self.assume(phi)

    def decide_nocheck(self, cond):
        """fork without feasibility pruning (an infeasible branch only yields vacuous obligations)"""
        if not z3.is_expr(cond):
            return bool(cond)
        cond = z3.simplify(cond)
        if z3.is_true(cond):
            return True
        if z3.is_false(cond):
            return False
        i = len(self.taken)
        choice = self.prefix[i] if i < len(self.prefix) else True
        self.taken.append(choice)
        self.pc.append(cond if choice else z3.Not(cond))
        return choice

    def decide_free(self, label):
        """fork on a fresh, unconstrained choice (no solver call needed: both sides feasible)"""
        cond = z3.Bool(self.fresh(label))
        i = len(self.taken)
        choice = self.prefix[i] if i < len(self.prefix) else False
        self.taken.append(choice)
        self.pc.append(cond if choice else z3.Not(cond))
        return choice

    def decide(self, cond):
        """fork on a symbolic condition; returns the branch taken on this path"""
        if isinstance(cond, SBool):
            cond = cond.t
        if not z3.is_expr(cond):
            return bool(cond)
        cond = z3.simplify(cond)
        if z3.is_true(cond):
            return True
        if z3.is_false(cond):
            return False
        if self.prune:
            ft = self.check(cond) != z3.unsat
            ff = self.check(z3.Not(cond)) != z3.unsat
            if ft and not ff:
                return True
            if ff and not ft:
                return False
            if not ft and not ff:
                # path condition itself is infeasible; either branch is vacuous
                raise Infeasible()
        i = len(self.taken)
        choice = self.prefix[i] if i < len(self.prefix) else True
        self.taken.append(choice)
        self.pc.append(cond if choice else z3.Not(cond))
        return choice

    def choose(self, n, label="choice"):
        """fork into one of n alternatives (used by case-split unfoldings)"""
        for k in range(n - 1):
            b = z3.Bool(self.fresh(label))
            if self.decide(b):
                return k
        return n - 1


class Infeasible(Exception):
    pass


def explore(run, max_paths=4096, prune=True):
    """Enumerate all paths of `run(ctx)` by decision-prefix re-execution.
    Yields (ctx, result) where result is whatever run returns (it must catch PyRaise itself
    when it wants exceptional outcomes)."""
    work = [[]]
    n = 0
    while work:
        prefix = work.pop()
        ctx = Ctx(prefix, prune=prune)
        try:
            res = run(ctx)
        except Infeasible:
            continue
        for i in range(len(prefix), len(ctx.taken)):
            work.append(ctx.taken[:i] + [not ctx.taken[i]])
        n += 1
        if n > max_paths:
            raise Undecided("path explosion")
        yield ctx, res


# --------------------------------------------------------------------------- equality
def sym_eq(a, b, ctx=None):
    """Python `a == b` for symbolic/concrete operands -> python bool or z3 Bool."""
    import dataclasses
    if not isinstance(a, Sym) and not isinstance(b, Sym):
        return a == b
    if isinstance(b, SOpt) and not isinstance(a, SOpt):
        a, b = b, a
    if isinstance(a, SOpt):
        if b is None:
            return a.is_none
        if isinstance(b, SOpt):
            inner = sym_eq(a.val, b.val, ctx)
            return z3.Or(z3.And(a.is_none, b.is_none),
                         z3.And(z3.Not(a.is_none), z3.Not(b.is_none), tobool(inner)))
        return z3.And(z3.Not(a.is_none), tobool(sym_eq(a.val, b, ctx)))
    if a is None or b is None:
        return False if (a is None) != (b is None) else True
    if isinstance(b, Sym) and not isinstance(a, Sym):
        a, b = b, a
    # a is Sym
    if isinstance(a, (SInt, SBool)):
        if isinstance(b, (SInt, SBool, int)) :
            return zint(a) == zint(b)
        if isinstance(b, float) and b == int(b):
            return zint(a) == int(b)
        return False
    if isinstance(a, SStr):
        if isinstance(b, SStr):
            return a.t == b.t
        if isinstance(b, str):
            return a.t == z3.StringVal(b)
        return False
    if isinstance(a, SBytes):
        if isinstance(b, (bytes, SBytes)):
            if ctx is not None:
                return equalise(ctx, a.segs, as_bytes(b))
            return segs_eq(a.segs, as_bytes(b))
        return False
    if isinstance(a, SOpaque):
        if isinstance(b, SOpaque):
            return a.t == b.t if a.kind == b.kind else False
        from kvc import opaque
        return opaque.eq_concrete(a, b)
    if isinstance(a, SRec):
        if isinstance(b, SRec):
            if a.cls is not b.cls:
                return False
            return z3.And(*[tobool(sym_eq(a.fields[k], b.fields[k], ctx)) for k in a.fields]) if a.fields else True
        if type(b) is not a.cls:
            return False
        return z3.And(*[tobool(sym_eq(v, getattr(b, k), ctx)) for k, v in a.fields.items()]) if a.fields else True
    if isinstance(a, SSeq):
        if isinstance(b, tuple):
            if len(b) == 0:
                return a.n == 0
            return z3.And(a.n == len(b), *[tobool(sym_eq(a.item(i), x, ctx)) for i, x in enumerate(b)])
        if isinstance(b, SSeq):
            if a is b:
                return True
            raise Undecided("equality of two distinct symbolic sequences")
        return False
    raise Undecided(f"sym_eq {a!r} {b!r}")


def leaf_equalities(a, b):
    """equalities between the symbolic leaves of two structurally identical generic values"""
    out = []
    if isinstance(a, SRec) and isinstance(b, SRec):
        for k in a.fields:
            out += leaf_equalities(a.fields[k], b.fields[k])
    elif isinstance(a, SOpt) and isinstance(b, SOpt):
        out.append(a.is_none == b.is_none)
        out += leaf_equalities(a.val, b.val)
    elif isinstance(a, (SInt, SBool, SStr, SOpaque)) and type(a) is type(b):
        out.append(a.t == b.t)
    elif isinstance(a, SBytes) and isinstance(b, SBytes) and len(a.segs) == 1 == len(b.segs) and isinstance(a.segs[0], Raw):
        out.append(a.segs[0].t == b.segs[0].t)
    elif isinstance(a, SSeq) and isinstance(b, SSeq):
        out.append(a.n == b.n)
    elif hasattr(a, "record") and hasattr(b, "record"):
        out += leaf_equalities(a.record, b.record)
    return out


def tobool(x):
    if isinstance(x, SBool):
        return x.t
    return x if z3.is_expr(x) else z3.BoolVal(bool(x))


def seg_term(seg):
    """a z3 term of sort B for a single segment when one exists (Raw)"""
    if isinstance(seg, Raw):
        return seg.t
    return None


def segs_eq(a, b):
    """Sufficient *and* (for the codecs used) structural condition for equality of two
    normalised segment lists; returns python bool / z3 Bool.  A structural mismatch yields
    False only when lengths can decide it, otherwise raises Mismatch so the caller can
    refute by concretisation rather than trusting a syntactic difference."""
    a, b = normalise(a), normalise(b)
    conds = []
    i = j = 0
    a, b = list(a), list(b)
    while i < len(a) and j < len(b):
        x, y = a[i], b[j]
        if isinstance(x, Lit) and isinstance(y, Lit):
            n = min(len(x.b), len(y.b))
            if x.b[:n] != y.b[:n]:
                return False
            if len(x.b) > n:
                a[i] = Lit(x.b[n:]); j += 1
            elif len(y.b) > n:
                b[j] = Lit(y.b[n:]); i += 1
            else:
                i += 1; j += 1
            continue
        if isinstance(x, Byte) and isinstance(y, Lit):
            conds.append(x.t == y.b[0]); i += 1
            if len(y.b) > 1:
                b[j] = Lit(y.b[1:])
            else:
                j += 1
            continue
        if isinstance(x, Lit) and isinstance(y, Byte):
            conds.append(y.t == x.b[0]); j += 1
            if len(x.b) > 1:
                a[i] = Lit(x.b[1:])
            else:
                i += 1
            continue
        if isinstance(x, Byte) and isinstance(y, Byte):
            conds.append(x.t == y.t); i += 1; j += 1
            continue
        if isinstance(x, Raw) and isinstance(y, Raw):
            conds.append(x.t == y.t); i += 1; j += 1
            continue
        if (isinstance(x, Raw) and isinstance(y, Lit) and i == len(a) - 1 and j == len(b) - 1) or \
                (isinstance(x, Lit) and isinstance(y, Raw) and i == len(a) - 1 and j == len(b) - 1):
            from . import opaque
            r, l = (x, y) if isinstance(x, Raw) else (y, x)
            conds.append(z3.And(blen(r.t) == len(l.b), r.t == opaque.literal("bytes", l.b)))
            i += 1; j += 1
            continue
        if isinstance(x, Enc) and isinstance(y, Enc) and x.codec == y.codec and len(x.args) == len(y.args):
            for p, q in zip(x.args, y.args):
                conds.append(tobool(sym_eq(p, q)))
            i += 1; j += 1
            continue
        if isinstance(x, Enc) and isinstance(y, (Lit, Byte)) and one_byte_view(x) is not None:
            a[i] = one_byte_view(x)
            continue
        if isinstance(y, Enc) and isinstance(x, (Lit, Byte)) and one_byte_view(y) is not None:
            b[j] = one_byte_view(y)
            continue
        raise Mismatch(f"segments differ structurally at {i}/{j}: {x!r} vs {y!r}")
    if i < len(a) or j < len(b):
        rest = a[i:] or b[j:]
        ln = total_len(rest)
        if isinstance(ln, int):
            return False if ln else (z3.And(*conds) if conds else True)
        conds.append(ln == 0)
        # all remaining segments must be empty; only sound as a *sufficient* condition for
        # inequality when some remaining segment has positive length, which `ln == 0` states.
    if not conds:
        return True
    return z3.And(*conds)


class Mismatch(Exception):
    pass


def one_byte_view(seg):
    """the single byte of a one-byte primitive encoding as a Byte segment (bool: 01/00; int8/uint8: two's complement),
    so that it can be compared with a literal byte; None for anything else"""
    if isinstance(seg, Enc) and len(seg.args) == 1:
        v = seg.args[0]
        if seg.codec == ("bool",) and isinstance(v, (bool, SBool)):
            return Byte(z3.If(tobool(v), z3.IntVal(1), z3.IntVal(0)) if not isinstance(v, bool) else z3.IntVal(int(v)))
        if seg.codec[0] in ("be", "le") and seg.codec[1] == 1 and isinstance(v, (int, SInt)) and not isinstance(v, bool):
            t = zint(v)
            return Byte(z3.If(t < 0, t + 256, t) if seg.codec[2] else t)
    return None


def equalise(ctx, a, b):
    """z3 condition for equality of two segment lists modulo the spec's unfoldings.
    Raises Mismatch when the structures cannot be aligned."""
    from spec import kafka
    a, b = list(normalise(a)), list(normalise(b))
    conds = []
    guard = 0
    while a and b:
        guard += 1
        if guard > 400:
            raise Undecided("equalise did not converge")
        x, y = a[0], b[0]
        # an item run over a provably empty sequence contributes nothing
        dropped = False
        for side in (a, b):
            h = side[0]
            if isinstance(h, Enc) and h.codec[0] == "run":
                sq = h.args[0]
                nn = sq.n if isinstance(sq, SSeq) else len(sq)
                if (isinstance(nn, int) and nn == 0) or (not isinstance(nn, int) and ctx.entails(nn == 0)):
                    side.pop(0)
                    dropped = True
        if dropped:
            continue
        if isinstance(x, Lit) and isinstance(y, Lit):
            n = min(len(x.b), len(y.b))
            if x.b[:n] != y.b[:n]:
                return False
            if len(x.b) > n:
                a[0] = Lit(x.b[n:]); b.pop(0)
            elif len(y.b) > n:
                b[0] = Lit(y.b[n:]); a.pop(0)
            else:
                a.pop(0); b.pop(0)
            continue
        last = len(a) == 1 and len(b) == 1
        # concrete bytes against a fixed-width integer encoding: decode the literal
        hit = False
        for lit, enc, ls, es in ((x, y, a, b), (y, x, b, a)):
            if isinstance(lit, Lit) and isinstance(enc, Enc) and enc.codec[0] in ("be", "le") and len(lit.b) >= enc.codec[1]:
                w = enc.codec[1]
                val = int.from_bytes(lit.b[:w], "big" if enc.codec[0] == "be" else "little", signed=enc.codec[2])
                conds.append(zint(enc.args[0]) == val)
                if len(lit.b) > w:
                    ls[0] = Lit(lit.b[w:])
                else:
                    ls.pop(0)
                es.pop(0)
                hit = True
                break
        if hit:
            continue
        # the eight bytes of a float against literal bytes: equality of the bit pattern
        for fe, fl, side_l in ((x, y, b), (y, x, a)):
            if isinstance(fe, Enc) and fe.codec == ("f64",) and isinstance(fl, Lit) and len(fl.b) >= 8 \
                    and isinstance(fe.args[0], SOpaque):
                from . import opaque
                conds.append(opaque.f64bits(fe.args[0].t) == opaque.literal("bytes", fl.b[:8]))
                (a if fe is x else b).pop(0)
                if len(fl.b) > 8:
                    side_l[0] = Lit(fl.b[8:])
                else:
                    side_l.pop(0)
                hit = True
                break
        if hit:
            continue
        # a one-byte segment against a longer literal: split the literal first (pairwise comparison below is by whole segments)
        if isinstance(x, Lit) and len(x.b) > 1 and (isinstance(y, Byte) or one_byte_view(y) is not None):
            a[0:1] = [Lit(x.b[:1]), Lit(x.b[1:])]
            continue
        if isinstance(y, Lit) and len(y.b) > 1 and (isinstance(x, Byte) or one_byte_view(x) is not None):
            b[0:1] = [Lit(y.b[:1]), Lit(y.b[1:])]
            continue
        try:
            if (isinstance(x, Raw) and isinstance(y, Lit) or isinstance(x, Lit) and isinstance(y, Raw)) and not last:
                raise Mismatch("raw against literal inside a longer list")
            c = segs_eq([x], [y])
            if c is False:
                return False
            if c is not True:
                conds.append(c)
            a.pop(0); b.pop(0)
            continue
        except Mismatch:
            pass
        if isinstance(x, Lit) and len(x.b) > 1 and isinstance(y, Byte):
            a[0:1] = [Lit(x.b[:1]), Lit(x.b[1:])]
            continue
        if isinstance(y, Lit) and len(y.b) > 1 and isinstance(x, Byte):
            b[0:1] = [Lit(y.b[:1]), Lit(y.b[1:])]
            continue
        for side, s in ((a, x), (b, y)):
            if isinstance(s, Enc) and s.codec[0] not in ("le", "bool", "f64") and not (
                    s.codec[0] == "be" and not isinstance(s.args[0], int)):
                try:
                    side[0:1] = list(normalise(kafka.unfold(ctx, s)))
                    break
                except Undecided:
                    continue
        else:
            raise Mismatch(f"cannot align {x!r} with {y!r}")
    rest = a or b
    if rest:
        # composite encodings left over on one side: unfold them so their length is explicit
        for _ in range(6):
            changed = False
            for i, s_ in enumerate(rest):
                if isinstance(s_, Enc) and s_.codec[0] in ("ent", "nent", "tagged", "carr", "larr", "run"):
                    try:
                        rest[i:i + 1] = list(normalise(kafka.unfold(ctx, s_)))
                        changed = True
                        break
                    except Undecided:
                        pass
            if not changed:
                break
        ln = total_len(rest)
        if isinstance(ln, int):
            if ln:
                return False
        else:
            if ctx.entails(zint(ln) > 0):
                return False
            conds.append(zint(ln) == 0)
    if not conds:
        return True
    return z3.And(*[tobool(c) for c in conds])
