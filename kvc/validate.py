"""Differential validation of the trusted models against CPython (model validation, never
counted as proof): struct.pack/unpack vs the be/le spec functions, varint spec encoder vs spec
decoder, zig-zag, UTF-8 facts on sampled strings, timedelta/datetime integer arithmetic."""
import datetime
import os
import random
import struct


def run(tier="quick"):
    from spec import kafka
    from kvc.models import STRUCT_FORMATS
    rnd = random.Random(int(os.environ.get("VERIF_SEED", "0") or 0))
    n = 0
    fails = []

    def bad(what, **kw):
        fails.append(dict(what=what, **{k: repr(v)[:120] for k, v in kw.items()}))
    for fmt, (d, lo, hi) in STRUCT_FORMATS.items():
        vals = {lo, lo + 1, -1, 0, 1, hi - 1, hi} | {rnd.randint(lo, hi) for _ in range(200)}
        if d[1] <= 2:
            vals = set(range(lo, hi + 1))
        for v in vals:
            if not lo <= v <= hi:
                continue
            n += 1
            if struct.pack(fmt, v) != kafka.concrete(d, v):
                bad("struct.pack-vs-spec", fmt=fmt, v=v)
            if struct.unpack(fmt, kafka.concrete(d, v))[0] != v:
                bad("struct.unpack-vs-spec", fmt=fmt, v=v)
        for v in (lo - 1, hi + 1):
            n += 1
            try:
                struct.pack(fmt, v)
                bad("struct.pack-range", fmt=fmt, v=v)
            except struct.error:
                pass
    # varint: spec encoder / decoder are inverse and minimal
    vals = set(range(0, 2 ** 14 + 300 if tier == "quick" else 2 ** 21)) | {2 ** k + d for k in range(70) for d in (-1, 0, 1)}
    for v in vals:
        if 0 <= v < 2 ** 70:
            n += 1
            b = kafka.concrete(("uv",), v)
            r = kafka.parse_concrete(("uv",), b + b"\x55")
            if r != (v, len(b)) or len(b) != kafka.uvlen(v) or (len(b) > 1 and b[-1] == 0):
                bad("uv-spec", v=v)
    for bits in (32, 64):
        for v in {0, 1, -1, 2 ** (bits - 1) - 1, -(2 ** (bits - 1))} | {rnd.randint(-(2 ** (bits - 1)), 2 ** (bits - 1) - 1) for _ in range(500)}:
            n += 1
            z = kafka.zz(v, bits)
            if not 0 <= z < 2 ** bits or ((z >> 1) ^ -(z & 1)) != v:
                bad("zigzag", v=v)
    for s in ("", "a", "é", "日本", "\U0001f600", "a" * 127, "b" * 128):
        n += 1
        if s.encode().decode() != s:
            bad("utf8", s=s)
    for s in ("\ud800",):
        n += 1
        try:
            s.encode()
            bad("utf8-surrogate", s=s)
        except UnicodeEncodeError:
            pass
    for ms in (0, 1, -1, 2 ** 31, 2 ** 53 + 1, -(2 ** 53) - 1, 86399999913600000 - 86400000):
        n += 1
        d = datetime.timedelta(milliseconds=ms)
        us = (d.days * 86400 + d.seconds) * 10 ** 6 + d.microseconds
        if us != ms * 1000 or d // datetime.timedelta(microseconds=1) != us:
            bad("timedelta-int", ms=ms)
    return n, fails
