"""Computed binary64 floats under the STANDARD MODEL of IEEE-754 rounding (assumed, see DESIGN 2.6).

A computed float is the real number it denotes: SFloat(r) with r a z3 Real term.  Every operation
whose exact result is x yields a fresh real r with

        |r - x| <= u * |x|,    u = 2^-53                      (round to nearest, binary64)

which is the textbook model of one correctly rounded operation (Higham, "Accuracy and Stability of
Numerical Algorithms", 2.2), valid when x is zero or in the normal range 2^-1022 <= |x| < 2^1024;
that side condition is emitted as an obligation of the path ("fp-normal-range") and discharged like
any other.  The model is an over-approximation of the machine (it admits every double the machine
could produce and more), so what is proved from it holds for the machine; a counter-model from it
is only a candidate and is replayed natively before it is reported.

Only operations whose exact result is LINEAR in the symbolic operands are supported (multiplication
or division by a concrete constant, int/int true division by a concrete divisor, addition of
floats); anything else is `Undecided`.  Facts used beyond the error bound:
  * an operation on exactly representable operands whose exact result is representable is exact -
    used only for integers of magnitude <= 2^53 (`exact_small_int`);
  * CPython: int / int is correctly rounded (long_true_divide), timedelta.total_seconds() is
    total_microseconds / 10**6, aware datetime.timestamp() is (self - epoch).total_seconds(),
    round(float) is the exact round-half-even of the double, int(float) truncates toward zero,
    float(int) is correctly rounded.
"""
from __future__ import annotations

import ast
from fractions import Fraction

import z3

from .core import PyRaise, SBool, SInt, Sym, Undecided, lower, zint

U = z3.RealVal(Fraction(1, 2 ** 53))
TINY = z3.RealVal(Fraction(1, 2 ** 1022))
HUGE = z3.RealVal(2 ** 1023)


class SFloat(Sym):
    """a computed double, as the real number it denotes"""

    def __init__(self, r):
        self.r = r

    def __repr__(self):
        return f"SFloat({self.r})"


def _abs(x):
    return z3.If(x >= 0, x, -x)


def real_of(v):
    """exact real value of an operand, or None when it is not one this model handles"""
    if isinstance(v, SFloat):
        return v.r
    if isinstance(v, bool):
        return None
    if isinstance(v, int):
        return z3.RealVal(v)
    if isinstance(v, float):
        if v != v or v in (float("inf"), float("-inf")):
            return None
        return z3.RealVal(Fraction(v))         # the double's exact value
    if isinstance(v, (SInt, SBool)):
        return z3.ToReal(zint(v))
    return None


def rounded(interp, exact, what):
    """the double nearest to the real `exact` (one correctly rounded operation)"""
    ctx = interp.ctx
    exact = z3.simplify(exact)
    ctx.oblige(f"fp-normal-range/{what}", z3.Or(exact == 0, z3.And(_abs(exact) >= TINY, _abs(exact) < HUGE)),
               expected="result of the float operation is zero or in the normal range of binary64")
    r = z3.Real(ctx.fresh("fl"))
    ctx.assume(_abs(r - exact) <= U * _abs(exact))
    return SFloat(r)


def from_int(interp, n, what="float(int)"):
    """int -> float: exact up to 2^53, correctly rounded beyond"""
    ctx = interp.ctx
    x = z3.ToReal(zint(n)) if not isinstance(n, int) else z3.RealVal(n)
    if ctx.entails(z3.And(x >= -(2 ** 53), x <= 2 ** 53)):
        return SFloat(x)
    return rounded(interp, x, what)


def true_div_ints(interp, a, b):
    """a / b for ints: correctly rounded quotient of the exact integers (CPython long_true_divide)"""
    if isinstance(b, (SInt, SBool)):
        raise Undecided("int / symbolic int (non-linear)")
    if b == 0:
        raise PyRaise(ZeroDivisionError)
    res = rounded(interp, z3.ToReal(zint(a)) / z3.RealVal(b), "int/int")
    if isinstance(b, int) and not isinstance(b, bool) and 0 < abs(b) <= 2 ** 53 and not isinstance(a, int):
        # a correctly rounded operation returns its exact result when that is representable, and every integer
        # of magnitude <= 2^53 is (`exact_small_int`): b | a and |a / b| <= 2^53  =>  the quotient is exact
        za = zint(a)
        interp.ctx.assume(z3.Implies(z3.And(za % b == 0, za <= 2 ** 53 * abs(b), za >= -(2 ** 53) * abs(b)),
                                     res.r == z3.ToReal(za) / z3.RealVal(b)))
    return res


def total_seconds(interp, us):
    """timedelta.total_seconds(): total_microseconds / 10**6, one correctly rounded division"""
    return rounded(interp, z3.ToReal(us) / z3.RealVal(10 ** 6), "total_seconds")


def binop(interp, op, a, b):
    """float arithmetic with at most one symbolic factor"""
    ra, rb = real_of(a), real_of(b)
    if ra is None or rb is None:
        raise Undecided(f"float operator {type(op).__name__} on {a!r}, {b!r}")
    ctx = interp.ctx
    # an int operand is first converted to float (float(int) may round beyond 2^53)
    if isinstance(a, (SInt, SBool)):
        ra = from_int(interp, a).r
    if isinstance(b, (SInt, SBool)):
        rb = from_int(interp, b).r
    if isinstance(a, int) and not isinstance(a, bool) and abs(a) > 2 ** 53:
        ra = z3.RealVal(Fraction(float(a)))
    if isinstance(b, int) and not isinstance(b, bool) and abs(b) > 2 ** 53:
        rb = z3.RealVal(Fraction(float(b)))
    a_const = not isinstance(a, Sym)
    b_const = not isinstance(b, Sym)
    if isinstance(op, ast.Mult):
        if not (a_const or b_const):
            raise Undecided("float * float with two symbolic factors (non-linear)")
        return rounded(interp, ra * rb, "mul")
    if isinstance(op, ast.Div):
        if not b_const:
            raise Undecided("float / symbolic float (non-linear)")
        if z3.is_true(z3.simplify(rb == 0)):
            raise PyRaise(ZeroDivisionError)
        return rounded(interp, ra / rb, "div")
    if isinstance(op, ast.Add):
        return rounded(interp, ra + rb, "add")
    if isinstance(op, ast.Sub):
        return rounded(interp, ra - rb, "sub")
    raise Undecided(f"float operator {type(op).__name__}")


def py_round(interp, f):
    """round(x) for a float without ndigits: the integer nearest to the double, ties to even"""
    ctx = interp.ctx
    n = z3.Int(ctx.fresh("round"))
    nr = z3.ToReal(n)
    half = z3.RealVal(Fraction(1, 2))
    ctx.assume(z3.And(nr - half <= f.r, f.r <= nr + half))
    ctx.assume(z3.Implies(z3.Or(f.r == nr + half, f.r == nr - half), n % 2 == 0))
    return lower(n)


def py_int(interp, f):
    """int(x) for a float: truncation toward zero"""
    ctx = interp.ctx
    n = z3.Int(ctx.fresh("trunc"))
    nr = z3.ToReal(n)
    ctx.assume(z3.If(f.r >= 0, z3.And(nr <= f.r, f.r < nr + 1), z3.And(nr >= f.r, f.r > nr - 1)))
    return lower(n)


def compare(interp, op, a, b):
    ra, rb = real_of(a), real_of(b)
    if ra is None or rb is None:
        raise Undecided(f"comparison of {a!r} and {b!r}")
    t = {ast.Lt: ra < rb, ast.LtE: ra <= rb, ast.Gt: ra > rb, ast.GtE: ra >= rb, ast.Eq: ra == rb,
         ast.NotEq: ra != rb}.get(type(op))
    if t is None:
        raise Undecided(f"float comparison {type(op).__name__}")
    return lower(t)


def truth(f):
    return f.r != 0
