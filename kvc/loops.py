"""Loop rules for the two loop shapes with a symbolic iteration count in kio.serial:

  writer:  for item in items: <body writing to sinks>
  reader:  tuple(<expr reading from the source> for _ in range(n))

Both are proved by the *generic iteration* form of the inductive invariant
    written == run(items, 0, k)            (writer)
    rest == run(items, k, n) ++ tail  and  acc == items[0:k]      (reader, match clause)
where run(items, i, j) is the concatenation of the item encodings. `init` and `exit` hold by the
definition of run; the `step` obligation is discharged by executing the loop body once for an
arbitrary index k (0 <= k < n) with an arbitrary item. For the truncation clause the step is:
a cut inside item k makes the body raise BufferUnderflow. For the general clause the variant is
the number of unread bytes: every iteration consumes at least one byte or raises.
"""
from __future__ import annotations

import z3

from .core import (Enc, Lit, Mismatch, PyRaise, Raw, SBytes, SInt, SSeq, Sym, Undecided, lower, sym_eq, tobool,
                   zint, total_len)
from .interp import BreakEx, ContinueEx, Frame
from .models import LocalBytesIO, Sink, Source, SRange


def _sinks(fr):
    return [v for v in fr.env.values() if isinstance(v, (Sink, LocalBytesIO))]


def _mark(s):
    return len(s.segs) if isinstance(s, Sink) else len(s.before)


def _since(s, m):
    if isinstance(s, Sink):
        d = s.segs[m:]
        del s.segs[m:]
    else:
        d = s.before[m:]
        del s.before[m:]
    return d


def range_loop_general(interp, st, rng, fr):
    """`for _ in range(n)` with symbolic n over a *general* (arbitrary bytes) source: the
    variant is the number of unread bytes - every iteration must consume at least one byte or
    raise.  The body is executed once for an arbitrary iteration; what the other iterations
    consume is havoced.  Local state keeps what this one iteration stored (per-field
    properties are covered by the fork over which entry the iteration read)."""
    ctx = interp.ctx
    lo, hi = zint(rng.lo), zint(rng.hi)
    if not ctx.decide(hi > lo):
        interp.block(st.orelse, fr)
        return
    srcs = _sources(fr)
    if len(srcs) != 1 or not getattr(srcs[0][1], "general", False):
        raise Undecided("loop over a symbolic range needs an invariant (not a general-clause source)")
    src = srcs[0][1]
    before = ctx.int_const(ctx.fresh("skipped"), 0)
    ctx.assume(before <= zint(src.remaining()))
    src._take(before)                 # earlier iterations
    c0 = zint(src.consumed)
    interp.assign(st.target, SInt(ctx.int_const(ctx.fresh("i"), 0)), fr)
    try:
        interp.block(st.body, fr)
    except ContinueEx:
        pass                          # `continue`: the iteration ends here
    except BreakEx:
        return                        # `break`: the loop ends at this iteration
    ctx.oblige("loop/variant-decreases", zint(src.consumed) - c0 >= 1)
    after = ctx.int_const(ctx.fresh("skipped"), 0)
    ctx.assume(after <= zint(src.remaining()))
    src._take(after)                  # later iterations
    interp.block(st.orelse, fr)


def _item_codec(item):
    """the codec whose encoding an item of this kind has as a whole, when its class determines one"""
    from .core import SRec
    if isinstance(item, SRec):
        name = getattr(item.cls, "__name__", "")
        if name == "RecordHeader":
            return ("rhdr",)
        if hasattr(item.cls, "__flexible__"):
            return ("ent", item.cls)
    return None


def writer_loop(interp, st, seq, fr):
    if isinstance(seq, SRange):
        return range_loop_general(interp, st, seq, fr)
    if not isinstance(seq, SSeq):
        raise Undecided(f"loop over {seq!r} needs an invariant")
    ctx = interp.ctx
    if ctx.entails(seq.n == 0):
        interp.block(st.orelse, fr)
        return
    sinks = _sinks(fr)
    marks = [_mark(s) for s in sinks]
    snapshot = dict(fr.env)
    k = ctx.int_const(ctx.fresh("k"), 0)
    ctx.assume(k < seq.n)
    item = seq.item(SInt(k))
    interp.assign(st.target, item, fr)
    try:
        interp.block(st.body, fr)
    except (BreakEx, ContinueEx):
        raise Undecided("break/continue in a loop over a symbolic sequence")
    targets = {n.id for n in __import__("ast").walk(st.target) if hasattr(n, "id")}
    for name, v in fr.env.items():
        if name in targets:
            continue
        if name not in snapshot or snapshot[name] is not v:
            raise Undecided(f"loop-carried variable {name!r} in a loop over a symbolic sequence")
    for s, m in zip(sinks, marks):
        delta = _since(s, m)
        if not delta:
            continue
        arg0 = delta[0].args[0] if len(delta) == 1 and isinstance(delta[0], Enc) and delta[0].args else None
        if arg0 is not None and arg0 is not item and getattr(arg0, "item", None) is item and hasattr(arg0, "derive"):
            # the item wrapped with loop-invariant context (e.g. a record with the batch's base values)
            run = Enc(("run", delta[0].codec), arg0.derive(seq))
            from spec import kafka
            for f in kafka.length_facts(run):
                ctx.assume(f)
            s.emit(run)
        elif len(delta) == 1 and isinstance(delta[0], Enc) and delta[0].args and delta[0].args[0] is item:
            run = Enc(("run", delta[0].codec), seq)
            from spec import kafka
            for f in kafka.length_facts(run):
                ctx.assume(f)
            s.emit(run)
        else:
            codec = _item_codec(item)
            ok = False
            if codec is not None:
                # the body wrote the item's encoding piecewise (e.g. key then value of a header): accept it when the
                # pieces ARE the unfolding of the item's codec
                from spec import kafka
                from .core import Mismatch, equalise
                try:
                    whole = Enc(codec, item)
                    cond = equalise(ctx, list(delta), list(kafka.unfold(ctx, whole)))
                    ok = cond is True or (cond is not False and ctx.entails(cond))
                except (Mismatch, Undecided):
                    ok = False
            if not ok:
                raise Undecided(f"loop body emits {delta!r}, not a single item encoding")
            run = Enc(("run", codec), seq)
            for f in kafka.length_facts(run):
                ctx.assume(f)
            s.emit(run)
    interp.block(st.orelse, fr)


def _sources(fr):
    out = []
    for name, v in fr.env.items():
        if isinstance(v, (Source, LocalBytesIO)) and not any(v is o for _, o in out):
            out.append((name, v))
    return out


def reader_genexp(interp, gen, src_info):
    itv, target, elt = src_info
    if not isinstance(itv, SRange):
        raise Undecided("generator over a symbolic non-range iterable")
    ctx = interp.ctx
    fr = gen.fr
    from kio.serial.errors import BufferUnderflow
    lo, hi = zint(itv.lo), zint(itv.hi)
    if not ctx.decide(hi > lo):
        return ()
    n = z3.simplify(hi - lo)
    srcs = _sources(fr)
    if len(srcs) > 1:
        # several streams in scope (an outer buffer and a temporary over one record): the one the element reads from
        import ast as _ast
        used = {nd.id for nd in _ast.walk(elt) if isinstance(nd, _ast.Name)}
        named = [s_ for s_ in srcs if s_[0] in used]
        if len(named) == 1:
            srcs = named
    if len(srcs) != 1:
        raise Undecided("array loop: cannot identify the source being read")
    sname, src = srcs[0]

    def run_elt(temp):
        sub = Frame(fr.fn, {k_: (temp if v is src else v) for k_, v in fr.env.items()})
        sub.globals = fr.globals
        if hasattr(fr, "captured"):
            sub.captured = fr.captured
        return interp.ev(elt, sub)

    if getattr(src, "general", False):
        # G clause: arbitrary input. Variant = bytes left: each iteration consumes >= 1 byte or raises.
        before = zint(src.remaining())
        temp = src          # the body acts on the real (unknown) source
        consumed0 = zint(src.consumed)
        v = run_elt(temp)
        ctx.oblige("loop/variant-decreases", zint(src.consumed) - consumed0 >= 1)
        # the remaining iterations: havoc what they consume
        rest_iter = ctx.int_const(ctx.fresh("more"), 0)
        ctx.assume(rest_iter <= zint(src.remaining()))
        src._take(rest_iter)
        proto = v
        return SSeq(n, ctx.fresh("items"), lambda i, _p=proto: _p)
    for _ in range(4):
        head = src.head()
        if isinstance(head, Enc) and head.codec[0] == "run":
            break
        if isinstance(head, Enc):
            src.unfold_head()
            continue
        raise Mismatch(f"array loop applied to {head!r}")
    else:
        raise Mismatch("array loop: no item run at the head of the source")
    d_item = head.codec[1]
    seq = head.args[0]
    cnt = seq.n if isinstance(seq, SSeq) else len(seq)
    if not ctx.entails(n == cnt):
        if not ctx.decide(n == cnt):
            raise Mismatch("array loop count differs from the number of encoded items")
    k = ctx.int_const(ctx.fresh("k"), 0)
    ctx.assume(k < n)
    item = seq.item(SInt(k)) if isinstance(seq, SSeq) else None
    if item is None:
        raise Undecided("array loop over a concrete run")
    enc = Enc(d_item, item)
    if src.avail is not None:
        from spec import kafka
        for f in kafka.length_facts(head):
            ctx.assume(f)
        if not ctx.decide(zint(src.avail) >= zint(head.length())):
            # the cut falls inside some item k: the body must raise BufferUnderflow there
            a = ctx.int_const(ctx.fresh("cut_in_item"), 0)
            ctx.assume(a < zint(enc.length()))
            temp = Source(ctx, [enc], avail=a)
            try:
                run_elt(temp)
            except PyRaise as r:
                if r.cls is BufferUnderflow:
                    src.segs = []
                    src.avail = 0
                    raise
                ctx.oblige("loop/trunc-step-raises-BufferUnderflow", z3.BoolVal(False))
                raise
            ctx.oblige("loop/trunc-step-raises-BufferUnderflow", z3.BoolVal(False))
            raise PyRaise(BufferUnderflow)
    # match step: the body reads exactly item k
    tailc = ctx.bytes_const(ctx.fresh("loop_tail"))
    temp = Source(ctx, [enc, Raw(tailc)])
    v = run_elt(temp)
    ctx.oblige("loop/step-reads-item", tobool(sym_eq(v, item, ctx)))
    from .core import equalise
    ctx.oblige("loop/step-consumes-item", tobool(equalise(ctx, temp.rest(), [Raw(tailc)])))
    src.pop_head()
    return seq


def install(interp):
    interp.loop_handler = writer_loop
    interp.genexp_handler = reader_genexp
