"""Trusted models of the stdlib pieces the functions under contract use (assumed contracts on
dependencies; validated against CPython by kvc/validate.py on every run), and the ghost models
of the writer's sink and the reader's source.
"""
from __future__ import annotations

import contextlib
import dataclasses
import datetime
from fractions import Fraction
import enum
import io
import struct
import uuid
import z3

from . import opaque
from .core import (Byte, Ctx, Enc, Lit, PyRaise, Raw, SBool, SBytes, SInt, SOpaque, SOpt, SRec, SSeq, SStr,
                   Sym, Undecided, as_bytes, blen, bslice, byteat, encodable, lower, mk_int, normalise,
                   sym_eq, tobool, total_len, ulen, utf8, utf8dec, valid_utf8, zint)
from .interp import SymMethod, _LazyGen, _has_sym

# struct formats: fmt -> (codec descriptor, lo, hi)
STRUCT_FORMATS = {}
for _c, _w in (("b", 1), ("h", 2), ("i", 4), ("q", 8)):
    for _e, _k in ((">", "be"), ("!", "be"), ("<", "le")):
        STRUCT_FORMATS[_e + _c] = ((_k, _w, True), -(1 << (8 * _w - 1)), (1 << (8 * _w - 1)) - 1)
        STRUCT_FORMATS[_e + _c.upper()] = ((_k, _w, False), 0, (1 << (8 * _w)) - 1)
# single-byte formats have no byte order
for _e in ("<",):
    STRUCT_FORMATS[_e + "b"] = (("be", 1, True), -128, 127)
    STRUCT_FORMATS[_e + "B"] = (("be", 1, False), 0, 255)


class IfaceViolation(Undecided):
    pass


def split_struct_format(fmt):
    """'>hiq' -> ['>h', '>i', '>q'] for explicit byte orders and the scalar codes this engine models; None otherwise"""
    if not isinstance(fmt, str) or len(fmt) < 2 or fmt[0] not in "><!":
        return None
    out, count = [], ""
    for ch in fmt[1:]:
        if ch.isdigit():
            count += ch
            continue
        if ch.isspace():
            continue
        if ch not in "bBhHiIqQ?d":
            return None
        out.extend([fmt[0] + ch] * (int(count) if count else 1))
        count = ""
    return out if not count else None


def resolve_opt(ctx, v):
    """an optional value used where its None-ness matters: fork (pruned by the path condition)"""
    while isinstance(v, SOpt):
        if ctx.decide(v.is_none):
            return None
        v = v.val
    return v


# =============================================================================== sink
class Sink:
    """The writer's `buffer` parameter: ghost `out`; only `.write(bytes)` is defined."""
    kvc_symbolic = True

    def __init__(self, ctx, name="sink", faulty=False):
        self.ctx = ctx
        self.name = name
        self.segs = []
        self.nwrites = 0
        self.faulty = faulty

    def kvc_getattr(self, interp, name, fr, node):
        if name == "write":
            return SymMethod(self.write, "write")
        interp.ctx.effects.append(("iface", f"sink.{name}", interp.where(node, fr)))
        raise IfaceViolation(f"IFACE: writer uses buffer.{name}")

    def write(self, b):
        if self.faulty:
            if self.ctx.decide(z3.Bool(self.ctx.fresh("io_fault"))):
                raise PyRaise(IOFault)
        b = resolve_opt(self.ctx, b)
        if b is None or isinstance(b, (SStr, str, SInt, int)):
            raise PyRaise(TypeError, "a bytes-like object is required")
        if isinstance(b, SBufferView):
            self.ctx.effects.append(("iface", "sink.write(<memoryview of a temporary buffer>)", "escaping alias"))
            raise IfaceViolation("IFACE: writer hands the stream a memoryview of a temporary buffer (the stream may keep it)")
        self.segs.extend(as_bytes(b))
        self.nwrites += 1
        return None

    def emit(self, *segs):
        self.segs.extend(segs)

    def out(self):
        return normalise(self.segs)


class IOFault(Exception):
    """an arbitrary exception raised by the stream itself (failure injection, C19)"""


# =============================================================================== source
class Source:
    """The reader's `buffer` parameter: ghost `rest` (unread remainder) as a segment list.
    If `avail` is not None only the first `avail` bytes of `segs` exist (a truncated stream).
    Only `.read(n)` is defined."""
    kvc_symbolic = True

    short_reads = False      # weak stream model: read(n) may return fewer bytes than are available (>= 1)

    def __init__(self, ctx, segs, avail=None, name="source", faulty=False):
        self.ctx = ctx
        self.segs = list(normalise(segs))
        self.avail = avail
        self.name = name
        self.nreads = 0
        self.consumed = 0      # Int term / int: bytes consumed so far
        self.faulty = faulty
        for s in self.segs:
            self._facts(s)

    def _facts(self, s):
        if isinstance(s, Enc):
            from spec import kafka
            for f in kafka.length_facts(s):
                self.ctx.assume(f)
        elif isinstance(s, Raw):
            self.ctx.assume(blen(s.t) >= 0)

    def kvc_getattr(self, interp, name, fr, node):
        if name == "read":
            return SymMethod(self.read, "read")
        interp.ctx.effects.append(("iface", f"source.{name}", interp.where(node, fr)))
        raise IfaceViolation(f"IFACE: reader uses buffer.{name}")

    # ---- length of what is left
    def remaining(self):
        t = total_len(self.segs)
        if self.avail is None:
            return t
        return self.avail

    def rest(self):
        return normalise(self.segs)

    # ---- IO.read(n)
    def read(self, n=-1):
        if self.faulty:
            if self.ctx.decide(z3.Bool(self.ctx.fresh("io_fault"))):
                raise PyRaise(IOFault)
        self.nreads += 1
        ctx = self.ctx
        if isinstance(n, SOpt) or n is None:
            raise Undecided("read(None)")
        nt = zint(n)
        rem = zint(self.remaining())
        if self.short_reads:
            # a raw / non-blocking stream: any number of bytes between 1 and min(n, remaining) (0 only at the end)
            k = ctx.int_const(ctx.fresh("short_read"), 0)
            want = z3.If(nt < 0, rem, z3.If(nt <= rem, nt, rem))
            ctx.assume(z3.And(k <= want, z3.Implies(want > 0, k >= 1)))
            return self._take(k)
        if ctx.decide(nt < 0):
            return self._take(rem)
        if ctx.decide(nt <= rem):
            return self._take(nt)
        return self._take(rem)

    # ---- contract of read_exact, applied to the structured source
    def take_exact(self, n):
        ctx = self.ctx
        from kio.serial.errors import BufferUnderflow
        nt = zint(n)
        rem = zint(self.remaining())
        if ctx.decide(z3.And(nt >= 0, nt <= rem)):
            return self._take(nt)
        # short read: everything left is consumed, then BufferUnderflow
        self.segs = []
        if self.avail is not None:
            self.avail = 0
        raise PyRaise(BufferUnderflow)

    def _take(self, nt):
        """remove and return exactly nt bytes (0 <= nt <= remaining is established)"""
        ctx = self.ctx
        out = []
        acc = z3.IntVal(0)
        nt = z3.simplify(nt)
        guard = 0
        while True:
            guard += 1
            if guard > 200:
                raise Undecided("source split did not converge")
            if ctx.entails(nt == acc):
                break
            if not self.segs:
                raise Undecided("read beyond the structured source")
            s = self.segs[0]
            ln = zint(s.length())
            if isinstance(s, Raw) and len(self.segs) == 1 and getattr(self, "general", False):
                # arbitrary remaining input: split without forking on whether everything is taken
                k = z3.simplify(nt - acc)
                a, b = self._split_seg(s, k)
                out.extend(a)
                self.segs[0:1] = list(b)
                acc = nt
                break
            if ctx.entails(nt >= acc + ln):
                out.append(self.segs.pop(0))
                acc = z3.simplify(acc + ln)
                continue
            if ctx.entails(nt < acc + ln):
                k = z3.simplify(nt - acc)       # split inside s at k, 0 < k < len(s)
                a, b = self._split_seg(s, k)
                out.extend(a)
                self.segs[0:1] = list(b)
                acc = nt
                break
            # undetermined: fork
            if ctx.decide(nt >= acc + ln):
                out.append(self.segs.pop(0))
                acc = z3.simplify(acc + ln)
            # else: loop again, now `nt < acc+ln` is entailed
        if self.avail is not None:
            self.avail = lower(z3.simplify(zint(self.avail) - nt))
        self.consumed = lower(z3.simplify(zint(self.consumed) + nt))
        return SBytes(out)

    def _split_seg(self, s, k):
        ctx = self.ctx
        if isinstance(s, Lit):
            kk = z3.simplify(k)
            if z3.is_int_value(kk):
                i = kk.as_long()
                return [Lit(s.b[:i])], [Lit(s.b[i:])]
            # fork over the concrete possibilities
            for i in range(1, len(s.b)):
                if ctx.decide(k == i):
                    return [Lit(s.b[:i])], [Lit(s.b[i:])]
            raise Undecided("split of literal at symbolic position")
        if isinstance(s, Raw):
            a = bslice(s.t, z3.IntVal(0), k)
            b = bslice(s.t, k, blen(s.t))
            ctx.assume(blen(a) == k)
            ctx.assume(blen(b) == blen(s.t) - k)
            return [Raw(a)], [Raw(b)]
        if isinstance(s, Enc) and s.codec[0] in ("be", "le") and len(s.args) == 1:
            # a cut inside a fixed-width integer (a truncated stream handed on by a plain read): its bytes as an opaque
            # string of that width - the link to the value is forgotten (havoc), which only weakens what can be proved
            from spec import kafka
            v = s.args[0]
            if not isinstance(v, Sym) and v is not None:
                return self._split_seg(Lit(kafka.concrete(s.codec, v)), k)
            c = ctx.bytes_const(ctx.fresh("intbytes"))
            ctx.assume(blen(c) == s.codec[1])
            return self._split_seg(Raw(c), k)
        if isinstance(s, Enc):
            from spec import kafka
            try:
                segs = list(normalise(kafka.unfold(ctx, s)))
            except Undecided:
                if s.codec[0] != "run":
                    raise
                # a cut inside a run of arbitrarily many items: the run as an opaque string of its length (havoc)
                c = ctx.bytes_const(ctx.fresh("runbytes"))
                ctx.assume(blen(c) == zint(s.length()))
                return self._split_seg(Raw(c), k)
            for x in segs:
                self._facts(x)
            # re-split within the unfolded form
            tmp = Source(ctx, segs)
            a = tmp._take(k)
            return list(a.segs), tmp.segs
        raise Undecided(f"cannot split {s!r}")

    # ---- structured access used by callee contracts
    def head(self):
        return self.segs[0] if self.segs else None

    def unfold_head(self):
        from spec import kafka
        s = self.segs[0]
        new = list(normalise(kafka.unfold(self.ctx, s)))
        for x in new:
            self._facts(x)
        self.segs[0:1] = new

    def pop_head(self):
        """consume the head segment entirely; with a truncated stream this forks into
        (whole segment available) / BufferUnderflow is the caller's business"""
        s = self.segs.pop(0)
        ln = zint(s.length())
        if self.avail is not None:
            self.avail = lower(z3.simplify(zint(self.avail) - ln))
        self.consumed = lower(z3.simplify(zint(self.consumed) + ln))
        return s


# =============================================================================== BytesIO
class SBufferView(SBytes):
    """memoryview exported by a local BytesIO (getbuffer()): reading it is fine; handing it to the stream is not - the
    stream contract lets the stream keep what it is given (a transport queues it), and closing or resizing the
    temporary while an export is alive raises BufferError, so the outcome would depend on the kind of stream"""

    def __init__(self, segs, owner):
        super().__init__(segs)
        self.owner = owner


class LocalBytesIO:
    """io.BytesIO(): a fresh private buffer. `before` = bytes left of the position,
    `after` = bytes right of it."""
    kvc_symbolic = True

    def __init__(self, ctx, initial=()):
        self.ctx = ctx
        self.before = []
        self.after = list(normalise(initial))
        self.closed = False
        self.nreads = 0

    managed = False

    def kvc_enter(self):
        self.managed = True
        return self

    def kvc_exit(self):
        self.closed = True

    def kvc_getattr(self, interp, name, fr, node):
        if self.closed and name in ("write", "read", "getvalue", "tell", "seek"):
            def closed(*a, **k):
                raise PyRaise(ValueError, "I/O operation on closed file")
            return SymMethod(closed)
        m = {"write": self.write, "getvalue": self.getvalue, "tell": self.tell, "read": self.read,
             "seek": self.seek, "close": self.kvc_exit, "__enter__": self.kvc_enter, "getbuffer": self.getbuffer}.get(name)
        if m is None:
            raise Undecided(f"BytesIO.{name} is not modelled")
        return SymMethod(m, name)

    def write(self, b):
        if self.after:
            raise Undecided("BytesIO.write in the middle of the buffer")
        b = resolve_opt(self.ctx, b)
        if b is None or isinstance(b, (SStr, str, SInt, int)):
            raise PyRaise(TypeError, "a bytes-like object is required")
        self.before.extend(as_bytes(b))
        return None

    def emit(self, *segs):
        self.before.extend(segs)

    def getvalue(self):
        return SBytes(self.before + self.after)

    def getbuffer(self):
        """a memoryview of the private buffer: same bytes, but an ALIAS of this activation's temporary"""
        return SBufferView(self.before + self.after, self)

    def tell(self):
        return lower(zint(total_len(normalise(self.before))))

    def _as_source(self):
        src = Source(self.ctx, self.after)
        return src

    def read(self, n=-1):
        src = Source(self.ctx, self.after)
        r = src.read(n)
        self.before.extend(r.segs)
        self.after = src.segs
        return r

    def take_exact(self, n):
        src = Source(self.ctx, self.after)
        try:
            r = src.take_exact(n)
        finally:
            consumed_all = not src.segs
        self.before.extend(r.segs)
        self.after = src.segs
        return r

    # Source-compatible surface so reader contracts can be applied to a local buffer
    @property
    def segs(self):
        return self.after

    @segs.setter
    def segs(self, v):
        self.after = v

    avail = None
    faulty = False

    def head(self):
        return self.after[0] if self.after else None

    def unfold_head(self):
        src = Source(self.ctx, self.after)
        src.unfold_head()
        self.after = src.segs

    def pop_head(self):
        s = self.after.pop(0)
        self.before.append(s)
        return s

    def remaining(self):
        return total_len(normalise(self.after))

    def rest(self):
        return normalise(self.after)

    def seek(self, pos, whence=0):
        if whence != 0:
            raise Undecided("seek whence")
        allsegs = list(normalise(self.before + self.after))
        acc = z3.IntVal(0)
        p = zint(pos)
        for i in range(len(allsegs) + 1):
            if self.ctx.entails(p == acc):
                self.before, self.after = allsegs[:i], allsegs[i:]
                return pos
            if i < len(allsegs):
                acc = z3.simplify(acc + zint(allsegs[i].length()))
        raise Undecided("seek to a position that is not a segment boundary")


class Closing:
    def __init__(self, inner):
        self.inner = inner
        self.kvc_symbolic = True

    def kvc_enter(self):
        self.inner.managed = True
        return self.inner

    def kvc_exit(self):
        self.inner.kvc_exit()


# =============================================================================== attribute access on Sym values
def sym_attr(interp, o, name, fr, node):
    ctx = interp.ctx
    if isinstance(o, SStr):
        if name == "isascii":
            def isascii_():
                from .core import isascii, str_facts
                for f in str_facts(o.t):
                    ctx.assume(f)
                ctx.assume(z3.Implies(isascii(o.t), encodable(o.t)))      # lone surrogates are not ASCII
                return lower(isascii(o.t))
            return SymMethod(isascii_, "isascii")
        if name == "encode":
            def encode(encoding="utf-8", errors="strict"):
                if encoding.lower().replace("_", "-") in ("ascii", "us-ascii"):
                    from .core import isascii, str_facts
                    for f in str_facts(o.t):
                        ctx.assume(f)
                    ctx.assume(z3.Implies(isascii(o.t), encodable(o.t)))
                    if not ctx.decide(isascii(o.t)):
                        raise PyRaise(UnicodeEncodeError, "ordinal not in range(128)")
                    encoding = "utf-8"        # for an ASCII string both codecs give the same bytes
                if encoding.lower().replace("_", "-") not in ("utf-8", "utf8"):
                    raise Undecided("non-utf8 encode")
                if not ctx.decide(encodable(o.t)):
                    raise PyRaise(UnicodeEncodeError, "surrogates not allowed")
                b = utf8(o.t)
                ctx.assume(blen(b) == ulen(o.t))
                ctx.assume(ulen(o.t) >= 0)
                ctx.assume(utf8dec(b) == o.t)
                ctx.assume(valid_utf8(b))
                return SBytes([Raw(b)])
            return SymMethod(encode, "encode")
    if isinstance(o, SBytes):
        if name == "decode":
            def decode(encoding="utf-8", errors="strict"):
                segs = o.segs
                if not segs:
                    return ""
                if len(segs) == 1 and isinstance(segs[0], Lit):
                    try:
                        return segs[0].b.decode(encoding, errors)
                    except UnicodeDecodeError:
                        raise PyRaise(UnicodeDecodeError)
                if len(segs) == 1 and isinstance(segs[0], Raw):
                    t = segs[0].t
                    if not ctx.decide(valid_utf8(t)):
                        raise PyRaise(UnicodeDecodeError)
                    s = utf8dec(t)
                    ctx.assume(ulen(s) == blen(t))
                    ctx.assume(utf8(s) == t)
                    ctx.assume(encodable(s))
                    return lower(z3.simplify(s))
                raise Undecided("decode of composite bytes")
            return SymMethod(decode, "decode")
    if isinstance(o, (SInt, SBool)):
        if name == "to_bytes":
            def to_bytes(length=1, byteorder="big", *, signed=False):
                if isinstance(length, Sym) or isinstance(byteorder, Sym):
                    raise Undecided("symbolic to_bytes parameters")
                lo, hi = (-(1 << (8 * length - 1)), (1 << (8 * length - 1)) - 1) if signed else (0, (1 << (8 * length)) - 1)
                t = zint(o)
                if not ctx.decide(z3.And(t >= lo, t <= hi)):
                    raise PyRaise(OverflowError, "int too big to convert")
                if length == 1 and not signed:
                    return SBytes([Byte(t)])
                kind = "be" if byteorder == "big" else "le"
                return SBytes([Enc((kind, length, signed), lower(t))])
            return SymMethod(to_bytes, "to_bytes")
        if name == "bit_length":
            raise Undecided("bit_length of symbolic int")
    if isinstance(o, SOpaque):
        if o.kind == "uuid":
            if name == "bytes":
                b = opaque.uuid_bytes(o.t)
                ctx.assume(blen(b) == 16)
                ctx.assume(opaque.uuid_of(b) == o.t)
                return SBytes([Raw(b)])
        if o.kind.startswith("enum:"):
            if name == "value":
                return lower(o.t)
            if name == "name":
                raise Undecided("name of symbolic enum member")
        if o.kind == "timedelta":
            if name == "total_seconds":
                def total_seconds():
                    from . import fpmodel
                    return fpmodel.total_seconds(interp, o.t)
                return SymMethod(total_seconds)
            if name == "days":
                return lower(o.t / (86400 * 10 ** 6))
            if name == "seconds":
                return lower((o.t / 10 ** 6) % 86400)
            if name == "microseconds":
                return lower(o.t % 10 ** 6)
        if o.kind in ("datetime", "naive_datetime"):
            from . import dtmodel
            return dtmodel.attr(interp, o, name)
    if isinstance(o, SSeq):
        if name in ("__len__",):
            return SymMethod(lambda: lower(o.n))
    raise Undecided(f"attribute {name} of {o!r}")


# =============================================================================== isinstance
def py_kind(v):
    """the Python type a symbolic value stands for"""
    if isinstance(v, SOpt):
        raise Undecided("py_kind of an optional (resolve its None-ness first)")
    if isinstance(v, SBool):
        return bool
    if isinstance(v, SInt):
        return int
    if isinstance(v, SStr):
        return str
    if isinstance(v, SBytes):
        return bytes
    if isinstance(v, SSeq):
        return tuple
    if isinstance(v, SRec):
        return v.cls
    if isinstance(v, SOpaque):
        return {"float": float, "uuid": uuid.UUID, "timedelta": datetime.timedelta,
                "datetime": datetime.datetime, "naive_datetime": datetime.datetime}.get(v.kind) or _enum_class(v.kind)
    raise Undecided(f"py_kind {v!r}")


_enum_classes = {}


def _enum_class(kind):
    return _enum_classes.get(kind)


def isinstance_model(interp, v, cls):
    if isinstance(cls, tuple):
        for c in cls:
            if interp.truth(isinstance_model(interp, v, c)):
                return True
        return False
    import types
    if isinstance(cls, types.UnionType):
        return isinstance_model(interp, v, cls.__args__)
    if isinstance(v, SOpt):
        if interp.ctx.decide(v.is_none):
            return isinstance(None, cls)
        return isinstance_model(interp, v.val, cls)
    if not isinstance(v, Sym):
        if isinstance(v, (Sink, Source)):
            interp.ctx.effects.append(("iface", f"isinstance({v.name}, ...)", "type test on the stream parameter"))
            raise IfaceViolation("IFACE: behaviour depends on the kind of stream (isinstance test on the buffer)")
        if hasattr(v, "kvc_symbolic"):
            return False if cls in (str, bytes, int, float, tuple) else isinstance(v, cls)
        if type(type(cls)).__name__ == "PhantomMeta" or type(cls).__name__ == "PhantomMeta":
            # concrete value against a phantom type: the real metaclass decides (C12 verifies it)
            return isinstance(v, cls)
        return isinstance(v, cls)
    base = py_kind(v)
    if type(cls).__name__ == "PhantomMeta":
        if getattr(interp, "inline_phantom", False):
            return interp.call_function(type(cls).__instancecheck__, [cls, v])
        return phantom_instancecheck(interp, v, cls)
    if base is None:
        raise Undecided("isinstance on unknown kind")
    return issubclass(base, cls)


def phantom_instancecheck(interp, v, cls):
    """contract of PhantomMeta.__instancecheck__ (proved for the real code under C12)"""
    bound = cls.__bound__
    base = py_kind(v)
    if base is bool and bound is int:
        pass
    elif not issubclass(base, bound):
        return False
    lo, hi = getattr(cls, "__low__", None), getattr(cls, "__high__", None)
    if lo is not None and hi is not None and bound is int:
        t = zint(v)
        return lower(z3.And(t >= lo, t <= hi))
    from . import dtmodel
    return dtmodel.phantom_predicate(interp, v, cls)


def phantom_call(interp, cls, v):
    """contract of PhantomMeta.__call__ / Phantom.parse: returns v unchanged iff instance"""
    if interp.truth(isinstance_model(interp, v, cls)):
        return v
    raise PyRaise(TypeError, f"Could not parse {cls.__qualname__}")


# =============================================================================== models of callables
def m_len(interp, fr, v):
    if isinstance(v, SBytes) or type(v).__name__ == "SByteArray":
        return lower(zint(v.length()))
    if isinstance(v, SSeq):
        return lower(v.n)
    if isinstance(v, SStr):
        from .core import clen, str_facts
        for f in str_facts(v.t):
            interp.ctx.assume(f)
        return lower(clen(v.t))
    if isinstance(v, SOpt):
        if interp.ctx.decide(v.is_none):
            raise PyRaise(TypeError, "object of type 'NoneType' has no len()")
        return m_len(interp, fr, v.val)
    if isinstance(v, Sym):
        raise PyRaise(TypeError, "no len()")
    try:
        return len(v)
    except TypeError:
        raise PyRaise(TypeError)


def m_isinstance(interp, fr, v, cls):
    return isinstance_model(interp, v, cls)


def m_getattr(interp, fr, o, name, *default):
    if isinstance(name, Sym):
        raise Undecided("getattr with symbolic name")
    try:
        return interp.getattr_(o, name, fr)
    except PyRaise as r:
        if default and r.cls is AttributeError:
            return default[0]
        raise


def m_hasattr(interp, fr, o, name):
    if isinstance(name, Sym):
        raise Undecided("hasattr with symbolic name")
    if isinstance(o, (Sink, Source)):
        if name in ("write",) and isinstance(o, Sink) or name in ("read",) and isinstance(o, Source):
            return True
        interp.ctx.effects.append(("iface", f"hasattr({o.name}, {name!r})", "attribute probe on the stream parameter"))
        raise IfaceViolation(f"IFACE: behaviour depends on the kind of stream (hasattr(buffer, {name!r}))")
    try:
        interp.getattr_(o, name, fr)
        return True
    except PyRaise as r:
        if r.cls is AttributeError:
            return False
        raise


def m_type(interp, fr, *args):
    if len(args) == 1 and isinstance(args[0], (Sink, Source)):
        interp.ctx.effects.append(("iface", f"type({args[0].name})", "type test on the stream parameter"))
        raise IfaceViolation("IFACE: behaviour depends on the kind of stream (type(buffer))")
    if len(args) == 1 and isinstance(args[0], SOpt):
        v = resolve_opt(interp.ctx, args[0])          # a path decision: None or the value
        return type(None) if v is None else (py_kind(v) if isinstance(v, Sym) else type(v))
    if len(args) == 1 and isinstance(args[0], Sym):
        return py_kind(args[0])
    return type(*args)


def m_struct_pack(interp, fr, fmt, *vals):
    if isinstance(fmt, Sym):
        raise Undecided("symbolic struct format")
    ctx = interp.ctx
    if len(vals) != 1:
        if not any(isinstance(v, Sym) for v in vals):
            try:
                return struct.pack(fmt, *vals)
            except struct.error:
                raise PyRaise(struct.error)
        parts = split_struct_format(fmt)
        if parts is None:
            raise Undecided(f"struct format {fmt!r} is not modelled")
        if len(parts) != len(vals):
            raise PyRaise(struct.error, "pack expected a different number of items")
        segs = []
        for f1, v1 in zip(parts, vals):      # one field at a time, in order: the first bad item raises struct.error
            segs.extend(as_bytes(m_struct_pack(interp, fr, f1, v1)))
        return SBytes(segs)
    v = vals[0]
    if not isinstance(v, Sym):
        try:
            return struct.pack(fmt, v)
        except struct.error:
            raise PyRaise(struct.error)
        except TypeError:
            raise PyRaise(struct.error)
    if isinstance(v, SOpt):
        if ctx.decide(v.is_none):
            raise PyRaise(struct.error, "required argument is not an integer")
        v = v.val
    if fmt in (">?", "?", "<?", "!?"):
        if isinstance(v, SBool):
            return SBytes([Enc(("bool",), v)])
        t = interp.truth_term(v)
        return SBytes([Enc(("bool",), lower(tobool(t)))])
    if fmt in (">d", "!d"):
        if isinstance(v, SOpaque) and v.kind == "float":
            return SBytes([Enc(("f64",), v)])
        raise Undecided("struct.pack('>d') of a non-float symbolic value")
    if fmt in STRUCT_FORMATS:
        d, lo, hi = STRUCT_FORMATS[fmt]
        if not isinstance(v, (SInt, SBool)):
            raise PyRaise(struct.error, "required argument is not an integer")
        t = zint(v)
        if ctx.decide(z3.And(t >= lo, t <= hi)):
            return SBytes([Enc(d, v)])
        raise PyRaise(struct.error, "argument out of range")
    raise Undecided(f"struct format {fmt!r} is not modelled")


def dec_fn(d):
    """uninterpreted decoder for a fixed-width codec on arbitrary bytes"""
    name = "dec_" + "_".join(str(x) for x in d)
    from .core import Bsort, I
    return z3.Function(name, Bsort, I)


def m_struct_unpack(interp, fr, fmt, b):
    if isinstance(fmt, Sym):
        raise Undecided("symbolic struct format")
    if not isinstance(b, Sym):
        try:
            return struct.unpack(fmt, b)
        except struct.error:
            raise PyRaise(struct.error)
    ctx = interp.ctx
    segs = as_bytes(b)
    size = struct.calcsize(fmt)
    ln = zint(total_len(segs))
    if not ctx.decide(ln == size):
        raise PyRaise(struct.error, "unpack requires a buffer of the right size")
    if fmt in (">?", "?", "<?", "!?"):
        if len(segs) == 1 and isinstance(segs[0], Enc) and segs[0].codec == ("bool",):
            return (segs[0].args[0],)
        bt = interp.byte_at(b, 0)
        return (lower(zint(bt) != 0),)
    if fmt in (">d", "!d"):
        if len(segs) == 1 and isinstance(segs[0], Enc) and segs[0].codec == ("f64",):
            return (segs[0].args[0],)
        if len(segs) == 1 and isinstance(segs[0], Raw):
            f = opaque.f64of(segs[0].t)
            ctx.assume(opaque.f64bits(f) == segs[0].t)
            return (SOpaque(f, "float"),)
        raise Undecided("unpack('>d') of composite bytes")
    if fmt in STRUCT_FORMATS:
        d, lo, hi = STRUCT_FORMATS[fmt]
        if len(segs) == 1 and isinstance(segs[0], Enc) and segs[0].codec == d:
            v = segs[0].args[0]
            return (v,)
        if len(segs) == 1 and isinstance(segs[0], Enc) and segs[0].codec[0] in ("be", "le") and d[1] == 1 \
                and segs[0].codec[1] == 1:
            # one byte read with the other signedness
            v = zint(segs[0].args[0])
            if segs[0].codec[2] and not d[2]:
                return (lower(z3.If(v < 0, v + 256, v)),)
            if not segs[0].codec[2] and d[2]:
                return (lower(z3.If(v > 127, v - 256, v)),)
        if len(segs) == 1 and isinstance(segs[0], Raw):
            t = dec_fn(d)(segs[0].t)
            ctx.assume(z3.And(t >= lo, t <= hi))
            return (SInt(t),)
        if all(isinstance(s, (Lit, Byte)) for s in segs):
            # explicit bytes: compute the value arithmetically
            bs = [s.t if isinstance(s, Byte) else None for s in segs]
            vals = []
            for s in segs:
                if isinstance(s, Byte):
                    vals.append(s.t)
                else:
                    vals.extend(z3.IntVal(x) for x in s.b)
            if d[0] == "le":
                vals = vals[::-1]
            t = z3.IntVal(0)
            for x in vals:
                t = t * 256 + x
            if d[2]:
                t = z3.If(t >= (1 << (8 * d[1] - 1)), t - (1 << (8 * d[1])), t)
            return (lower(t),)
        raise Undecided(f"struct.unpack({fmt!r}) of {segs!r}")
    parts = split_struct_format(fmt)
    if parts is not None and len(parts) > 1:
        # several fields: the buffer (its total size was checked above) is cut into the fields' sizes, in order
        src = Source(ctx, list(segs))
        out = []
        for f1 in parts:
            chunk = src._take(z3.IntVal(struct.calcsize(f1)))
            out.extend(m_struct_unpack(interp, fr, f1, chunk))
        return tuple(out)
    raise Undecided(f"struct format {fmt!r} is not modelled")


def m_bytesio(interp, fr, initial=b""):
    o = LocalBytesIO(interp.ctx, as_bytes(initial))
    interp.fresh_ids.add(id(o)); interp._keep(o)
    return o


def m_closing(interp, fr, inner):
    if not hasattr(inner, "kvc_exit"):
        raise Undecided("closing() of an unmodelled object")
    return Closing(inner)


def m_tuple(interp, fr, *args):
    if not args:
        return ()
    (v,) = args
    if isinstance(v, _LazyGen):
        src = v.symbolic_source()
        if src is not None and isinstance(src[0], Sym):
            handler = getattr(interp, "genexp_handler", None)
            if handler is None:
                raise Undecided("tuple(<generator over a symbolic iterable>) needs a loop contract")
            return handler(interp, v, src)
        return tuple(v.run())
    if isinstance(v, SSeq):
        return v
    if isinstance(v, Sym):
        raise Undecided("tuple() of symbolic value")
    if isinstance(v, list) and any(isinstance(x, Sym) for x in v):
        return tuple(v)
    return tuple(interp.iterate(v))


class SRange(Sym):
    def __init__(self, lo, hi, step=1):
        self.lo, self.hi, self.step = lo, hi, step

    def __repr__(self):
        return f"SRange({self.lo},{self.hi},{self.step})"


def m_range(interp, fr, *args):
    if not any(isinstance(a, Sym) for a in args):
        try:
            return range(*args)
        except TypeError:
            raise PyRaise(TypeError)
    if any(isinstance(a, (SOpt, SStr, SBytes, SOpaque)) for a in args):
        raise PyRaise(TypeError, "range() argument is not an int")
    if len(args) == 1:
        return SRange(0, args[0])
    if len(args) == 2:
        return SRange(args[0], args[1])
    raise Undecided("symbolic range step")


def m_int(interp, fr, v=0, *rest):
    if isinstance(v, (SInt, SBool)):
        return lower(zint(v))
    from . import fpmodel
    if type(v).__name__ == "SInstantSeconds" and not rest:
        v = fpmodel.total_seconds(interp, v.us)
    if isinstance(v, fpmodel.SFloat) and not rest:
        return fpmodel.py_int(interp, v)
    if isinstance(v, Sym):
        raise Undecided("int() of symbolic non-int")
    return int(v, *rest)


def m_bool(interp, fr, v=False):
    t = interp.truth_term(v)
    return t if isinstance(t, bool) else SBool(t)


class MappedSeq(Sym):
    """map(f, <symbolic sequence>): consumed by a fold (max) or materialised item by item"""

    def __init__(self, f, seq):
        self.f, self.seq = f, seq

    def attr_name(self):
        import operator
        if isinstance(self.f, operator.attrgetter):
            args = self.f.__reduce__()[1]
            if len(args) == 1 and isinstance(args[0], str) and "." not in args[0]:
                return args[0]
        return None


def m_map(interp, fr, f, *its):
    if len(its) == 1 and isinstance(its[0], SSeq):
        return MappedSeq(f, its[0])
    if any(isinstance(i, Sym) for i in its):
        raise Undecided("map over a symbolic iterable")
    cols = [list(interp.iterate(i)) for i in its]
    return [interp.call(f, list(row), {}, fr) for row in zip(*cols)]


def m_max(interp, fr, *args, **kw):
    if len(args) == 1 and isinstance(args[0], MappedSeq):
        import ast as _ast
        name = args[0].attr_name()
        handler = getattr(interp, "fold_handler", None)
        if name is None or handler is None or kw:
            raise Undecided("max(map(f, <symbolic sequence>)) needs a contract")
        elt = _ast.Attribute(value=_ast.Name(id="item", ctx=_ast.Load()), attr=name, ctx=_ast.Load())
        return handler(interp, "max", None, (args[0].seq, None, elt))
    if len(args) == 1 and isinstance(args[0], _LazyGen):
        src = args[0].symbolic_source()
        if src is not None and isinstance(src[0], Sym):
            handler = getattr(interp, "fold_handler", None)
            if handler is None:
                raise Undecided("max(<generator over a symbolic iterable>) needs a contract")
            return handler(interp, "max", args[0], src)
        args = (list(args[0].run()),)
    vals = list(args[0]) if len(args) == 1 else list(args)
    if not any(isinstance(v, Sym) for v in vals) and not any(type(v).__name__ == "SInstantSeconds" for v in vals):
        try:
            return max(vals, **kw)
        except (ValueError, TypeError) as ex:
            raise PyRaise(type(ex), str(ex))
    cur = vals[0]
    for v in vals[1:]:
        if interp.truth(interp.compare(__import__("ast").Gt(), v, cur)):
            cur = v
    return cur


def m_round(interp, fr, v, nd=None):
    if isinstance(v, (SInt, SBool)) and nd is None:
        return lower(zint(v))
    from . import fpmodel
    if type(v).__name__ == "SInstantSeconds":
        v = fpmodel.total_seconds(interp, v.us)
    if isinstance(v, fpmodel.SFloat) and nd is None:
        return fpmodel.py_round(interp, v)
    if isinstance(v, Sym):
        raise Undecided("round() of a float (outside the subset)")
    return round(v) if nd is None else round(v, nd)


def m_uuid(interp, fr, *args, **kw):
    if not _has_sym(args) and not _has_sym(kw):
        try:
            return uuid.UUID(*args, **kw)
        except (ValueError, TypeError) as ex:
            raise PyRaise(type(ex))
    if set(kw) == {"bytes"} and not args:
        b = kw["bytes"]
        segs = as_bytes(b)
        ctx = interp.ctx
        if not ctx.decide(zint(total_len(segs)) == 16):
            raise PyRaise(ValueError, "bytes is not a 16-char string")
        if len(segs) == 1 and isinstance(segs[0], Raw):
            u = opaque.uuid_of(segs[0].t)
            ctx.assume(opaque.uuid_bytes(u) == segs[0].t)
            return SOpaque(z3.simplify(u), "uuid")
        if len(segs) == 1 and isinstance(segs[0], Lit):
            return uuid.UUID(bytes=segs[0].b)
        if len(segs) == 1 and isinstance(segs[0], Enc) and segs[0].codec == ("uuid",):
            v = resolve_opt(ctx, segs[0].args[0])
            return uuid.UUID(int=0) if v is None else v
        raise Undecided("UUID(bytes=<composite>)")
    raise Undecided("UUID() form not modelled")


def m_timedelta(interp, fr, *args, **kw):
    if not _has_sym(args) and not _has_sym(kw):
        try:
            return datetime.timedelta(*args, **kw)
        except OverflowError:
            raise PyRaise(OverflowError)
    if args:
        raise Undecided("positional timedelta() with symbolic arguments")
    unit = {"days": 86400 * 10 ** 6, "seconds": 10 ** 6, "microseconds": 1, "milliseconds": 1000,
            "minutes": 60 * 10 ** 6, "hours": 3600 * 10 ** 6, "weeks": 7 * 86400 * 10 ** 6}
    us = z3.IntVal(0)
    for k, v in kw.items():
        if isinstance(v, float) or (isinstance(v, SOpaque) and v.kind == "float"):
            raise Undecided("timedelta() with a float argument")
        if not isinstance(v, (int, SInt, SBool)):
            raise PyRaise(TypeError, f"unsupported type for timedelta {k} component")
        us = us + zint(v) * unit[k]
    return opaque.mk_timedelta(interp, us)


def make_enum_model(cls):
    members = list(cls)
    kind = f"enum:{cls.__qualname__}"
    _enum_classes[kind] = cls

    def model(interp, fr, v):
        if not isinstance(v, Sym):
            try:
                return cls(v)
            except ValueError:
                raise PyRaise(ValueError)
        if isinstance(v, SOpaque) and v.kind == kind:
            return v
        if not isinstance(v, (SInt, SBool)):
            raise PyRaise(ValueError, "not a valid member")
        t = zint(v)
        if len(members) <= 4:
            for m in members:
                if interp.ctx.decide(t == m.value):
                    return m
            raise PyRaise(ValueError, "not a valid member")
        if interp.ctx.decide(z3.Or(*[t == m.value for m in members])):
            return SOpaque(t, kind)
        raise PyRaise(ValueError, "not a valid member")
    return model


def m_bytes(interp, fr, *args, **kw):
    """bytes(iterable of ints) / bytes(bytes): each int must be in range(256) (ValueError otherwise)"""
    if not _has_sym(args) and not _has_sym(kw):
        try:
            return bytes(*args, **kw)
        except (ValueError, TypeError) as ex:
            raise PyRaise(type(ex))
    if len(args) != 1 or kw:
        raise Undecided("bytes() form not modelled")
    v = args[0]
    if isinstance(v, SBytes):
        return v
    if type(v).__name__ == "SByteArray":
        return SBytes(list(v.segs))          # an immutable copy of what the bytearray holds now
    if isinstance(v, (tuple, list)):
        segs = []
        for x in v:
            if isinstance(x, (SInt, SBool, int)):
                t = zint(x)
                if not interp.ctx.decide(z3.And(t >= 0, t <= 255)):
                    raise PyRaise(ValueError, "bytes must be in range(0, 256)")
                segs.append(Byte(z3.simplify(t)))
            else:
                raise PyRaise(TypeError, "an integer is required")
        return SBytes(segs)
    if isinstance(v, (SInt, SBool)):
        raise Undecided("bytes(n) with symbolic n")
    raise Undecided("bytes() of a symbolic value")


class SByteArray(Sym):
    """a mutable bytearray built by the code under execution"""

    def __init__(self, segs):
        self.segs = tuple(segs)

    def length(self):
        return total_len(normalise(self.segs))

    def kvc_getattr(self, interp, name, fr, node):
        from .core import Byte
        if name == "append":
            def append(x):
                if isinstance(x, bool) or not isinstance(x, (int, SInt)):
                    raise PyRaise(TypeError, "an integer is required")
                t = zint(x)
                if not interp.ctx.decide(z3.And(t >= 0, t <= 255)):
                    raise PyRaise(ValueError, "byte must be in range(0, 256)")
                self.segs = tuple(self.segs) + ((Lit(bytes([x])),) if isinstance(x, int) else (Byte(z3.simplify(t)),))
                return None
            return SymMethod(append, "append")
        if name == "extend":
            def extend(b):
                self.segs = tuple(self.segs) + tuple(as_bytes(b) if not isinstance(b, SByteArray) else b.segs)
                return None
            return SymMethod(extend, "extend")
        raise Undecided(f"bytearray.{name} is not modelled")


def m_bytearray(interp, fr, *args):
    if not args:
        return SByteArray([])
    if len(args) == 1 and isinstance(args[0], (SBytes, bytes)):
        return SByteArray(as_bytes(args[0]))
    if not _has_sym(args):
        return bytearray(*args)
    raise Undecided("bytearray() form not modelled")


def m_enumerate(interp, fr, it, start=0):
    if isinstance(it, Sym) and not isinstance(it, SBytes):
        raise Undecided("enumerate over a symbolic iterable")
    return list(enumerate(interp.iterate(it), start))


def m_zip(interp, fr, *its, **kw):
    if any(isinstance(i, Sym) for i in its):
        raise Undecided("zip over a symbolic iterable")
    if kw:
        raise Undecided("zip(strict=...)")
    iters = [iter(interp.iterate(i)) for i in its]

    def lockstep():          # lazy, like zip: stops at the first exhausted iterable, in argument order
        while iters:
            row = []
            for it_ in iters:
                try:
                    row.append(next(it_))
                except StopIteration:
                    return
            yield tuple(row)
    return lockstep()


def m_iter(interp, fr, *args):
    if len(args) == 1:
        if isinstance(args[0], Sym):
            raise Undecided("iter() of a symbolic value")
        return iter(interp.iterate(args[0]))
    if len(args) != 2:
        raise PyRaise(TypeError, "iter expected 1 or 2 arguments")
    fn, sentinel = args
    import ast as _ast

    def until_sentinel():    # iter(callable, sentinel): the comparison with the sentinel is a decision of the path
        n = 0
        while True:
            n += 1
            if n > getattr(interp, "max_unwind", 64):
                raise Undecided("iter(callable, sentinel) unwound beyond the limit")
            v = fn()
            if interp.truth(interp.compare(_ast.Eq(), v, sentinel)):
                return
            yield v
    return until_sentinel()


def m_list(interp, fr, *args):
    if not args:
        v = []
    else:
        if isinstance(args[0], Sym):
            raise Undecided("list() of a symbolic value")
        v = list(interp.iterate(args[0]))
    interp.fresh_ids.add(id(v)); interp._keep(v)
    return v


def m_any(interp, fr, it):
    if isinstance(it, Sym):
        raise Undecided("any() over a symbolic iterable")
    for x in interp.iterate(it):
        if interp.truth(x):
            return True
    return False


def m_all(interp, fr, it):
    if isinstance(it, Sym):
        raise Undecided("all() over a symbolic iterable")
    for x in interp.iterate(it):
        if not interp.truth(x):
            return False
    return True


def m_sum(interp, fr, it, start=0):
    import ast
    if isinstance(it, Sym):
        raise Undecided("sum() over a symbolic iterable")
    acc = start
    for x in interp.iterate(it):
        acc = interp.binop(ast.Add(), acc, x)
    return acc


def m_min(interp, fr, *args, **kw):
    import ast
    vals = list(interp.iterate(args[0])) if len(args) == 1 else list(args)
    if not any(isinstance(v, Sym) for v in vals):
        try:
            return min(vals, **kw)
        except (ValueError, TypeError) as ex:
            raise PyRaise(type(ex), str(ex))
    cur = vals[0]
    for v in vals[1:]:
        if interp.truth(interp.compare(ast.Lt(), v, cur)):
            cur = v
    return cur


def m_abs(interp, fr, v):
    if isinstance(v, (SInt, SBool)):
        t = zint(v)
        return lower(z3.If(t >= 0, t, -t))
    if isinstance(v, Sym):
        raise Undecided("abs() of a symbolic non-int")
    return abs(v)


def m_int_from_bytes(interp, fr, b, byteorder="big", *, signed=False):
    if not isinstance(b, Sym):
        return int.from_bytes(b, byteorder, signed=signed)
    segs = as_bytes(b)
    ln = total_len(segs)
    if not isinstance(ln, int):
        for w in (1, 2, 4, 8):
            if interp.ctx.entails(zint(ln) == w):
                ln = w
                break
        else:
            raise Undecided("int.from_bytes of a symbolic-length value")
    fmt = {1: "b", 2: "h", 4: "i", 8: "q"}.get(ln)
    if fmt is None:
        raise Undecided("int.from_bytes width")
    fmt = (">" if byteorder == "big" else "<") + (fmt if signed else fmt.upper())
    return m_struct_unpack(interp, fr, fmt, b)[0]


def m_isfinite(interp, fr, v):
    import math
    if isinstance(v, SOpaque) and v.kind == "float":
        return lower(opaque.isfinite(v.t))
    if isinstance(v, (SInt, SBool)):
        return True
    if isinstance(v, Sym):
        raise PyRaise(TypeError, "must be real number")
    try:
        return math.isfinite(v)
    except TypeError:
        raise PyRaise(TypeError)


def m_divmod(interp, fr, a, b):
    import ast
    if not isinstance(a, Sym) and not isinstance(b, Sym):
        try:
            return divmod(a, b)
        except Exception as ex:
            raise PyRaise(type(ex))
    return (interp.binop(ast.FloorDiv(), a, b), interp.binop(ast.Mod(), a, b))


def m_is_dataclass(interp, fr, obj):
    import dataclasses as _dc
    if isinstance(obj, SOpt):
        obj = resolve_opt(interp.ctx, obj)
    if isinstance(obj, SRec):
        return _dc.is_dataclass(obj.cls)
    if isinstance(obj, Sym):
        return False            # symbolic ints, strings, bytes, sequences, opaque scalars are not dataclass instances
    return _dc.is_dataclass(obj)


def _astuple(interp, v):
    import dataclasses as _dc
    if isinstance(v, SOpt):
        v = resolve_opt(interp.ctx, v)
    if isinstance(v, SRec):
        return tuple(_astuple(interp, v.fields[f.name]) for f in _dc.fields(v.cls))
    if isinstance(v, SSeq):
        if isinstance(v.n, int) or not isinstance(v.n, Sym) and not z3.is_expr(v.n):
            return tuple(_astuple(interp, v.item(i)) for i in range(int(v.n)))
        raise Undecided("dataclasses.astuple over a sequence of symbolic length")
    if isinstance(v, (tuple, list)) and not isinstance(v, Sym):
        return type(v)(_astuple(interp, x) for x in v)
    if not isinstance(v, Sym) and _dc.is_dataclass(v) and not isinstance(v, type):
        return tuple(_astuple(interp, getattr(v, f.name)) for f in _dc.fields(v))
    return v


def m_astuple(interp, fr, obj, **kw):
    import dataclasses as _dc
    if kw:
        raise Undecided("dataclasses.astuple(tuple_factory=...)")
    if isinstance(obj, SOpt):
        obj = resolve_opt(interp.ctx, obj)
    if not isinstance(obj, Sym):
        try:
            return _dc.astuple(obj)
        except TypeError as ex:
            raise PyRaise(TypeError, str(ex))
    if not isinstance(obj, SRec):
        raise PyRaise(TypeError, "astuple() should be called on dataclass instances")
    return _astuple(interp, obj)


def m_fromtimestamp(interp, fr, *args, **kw):
    """datetime.datetime.fromtimestamp(t, tz) for tz = UTC (CPython _PyTime_ObjectToTimeval with ROUND_HALF_EVEN):
    frac, whole = modf(t) exactly; us = round_half_even(fl(frac * 1e6)) with a carry into `whole`.  |frac| < 1, so the
    one rounded multiplication errs by at most u * 1e6 < 2^-33: the instant is an integer number N of microseconds with
    |N - t * 10^6| <= 1/2 + 2^-33 (over-approximation: every N the machine can return satisfies it)."""
    from . import fpmodel
    t, tz = (list(args) + [kw.get("tz")])[:2] if len(args) < 2 else args[:2]
    if not isinstance(t, Sym):
        if isinstance(tz, Sym):
            raise Undecided("fromtimestamp with a symbolic tz")
        try:
            return datetime.datetime.fromtimestamp(t, tz)
        except (OverflowError, ValueError, OSError) as ex:
            raise PyRaise(type(ex))
    if tz is not datetime.timezone.utc:
        raise Undecided("fromtimestamp with a tz other than UTC is not modelled")
    ctx = interp.ctx
    r = fpmodel.real_of(t)
    if r is None:
        raise Undecided(f"fromtimestamp({t!r})")
    n = z3.Int(ctx.fresh("instant_us"))
    d = z3.ToReal(n) - r * 10 ** 6
    slack = z3.RealVal(Fraction(1, 2) + Fraction(1, 2 ** 33))
    ctx.assume(z3.And(d <= slack, -d <= slack))
    if isinstance(t, (SInt, SBool)):
        ctx.assume(n == zint(t) * 10 ** 6)
    if not ctx.decide(z3.And(n >= opaque.DT_MIN_US, n <= opaque.DT_MAX_US)):
        # year outside 1..9999: ValueError / OverflowError / OSError depending on the platform's time_t
        raise PyRaise(ValueError, "year is out of range")
    return SOpaque(n, "datetime")


def m_assert_never(interp, fr, *args):
    # typing.assert_never: at run time it raises AssertionError whatever it is given
    raise PyRaise(AssertionError, "Expected code to be unreachable")


def base_models():
    import builtins
    import contextlib as _ctx
    import dataclasses as _dc
    import typing as _typing
    m = {
        _typing.assert_never: m_assert_never,
        _dc.is_dataclass: m_is_dataclass,
        _dc.astuple: m_astuple,
        len: m_len,
        isinstance: m_isinstance,
        getattr: m_getattr,
        hasattr: m_hasattr,
        type: m_type,
        struct.pack: m_struct_pack,
        struct.unpack: m_struct_unpack,
        io.BytesIO: m_bytesio,
        _ctx.closing: m_closing,
        tuple: m_tuple,
        range: m_range,
        int: m_int,
        bool: m_bool,
        max: m_max,
        round: m_round,
        uuid.UUID: m_uuid,
        datetime.timedelta: m_timedelta,
        datetime.datetime.fromtimestamp: m_fromtimestamp,
        divmod: m_divmod,
        bytes: m_bytes,
        enumerate: m_enumerate,
        zip: m_zip,
        iter: m_iter,
        map: m_map,
        list: m_list,
        any: m_any,
        all: m_all,
        sum: m_sum,
        min: m_min,
        abs: m_abs,
        int.from_bytes: m_int_from_bytes,
        bytearray: m_bytearray,
        __import__("math").isfinite: m_isfinite,
        datetime.timezone.utc.utcoffset: lambda interp, fr, *a: datetime.timedelta(0),
    }
    return m
