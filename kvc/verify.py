"""Verification harness: runs real function bodies against their contracts, collects named
obligations, discharges them with z3 (cvc5 on unknown), replays counter-models natively."""
from __future__ import annotations

import io
import os
import time
import traceback
import z3

from . import opaque
from .core import (Ctx, Enc, Infeasible, Lit, Mismatch, Obligation, PyRaise, Raw, SBytes, SOpt, Sym, Undecided,
                   explore, normalise, segs_eq, sym_eq, tobool, total_len, zint, SOLVER_TIMEOUT_MS)
from .interp import Interp
from .interp import FrameViolation
from .models import LocalBytesIO, Sink, Source, base_models, IfaceViolation


class Result:
    """outcome of verifying one unit (function x scenario)"""

    def __init__(self, unit):
        self.unit = unit
        self.obligations = []       # Obligation objects (discharged / refuted / undecided)
        self.undecided = []         # (where, reason) engine limits
        self.paths = 0
        self.effects = []
        self.inlined = {}           # un-contracted repository helpers verified inside their callers
        self.time = 0.0

    def ok(self):
        return not self.undecided and all(o.status == "discharged" for o in self.obligations)


from .core import equalise  # noqa: E402,F401


# ------------------------------------------------------------------------------ discharge
def discharge(ob: Obligation, facts=None):
    t0 = time.time()
    goal = ob.goal
    if not z3.is_expr(goal):
        goal = z3.BoolVal(bool(goal))
    s = z3.Solver()
    s.set("timeout", SOLVER_TIMEOUT_MS)
    for f in opaque.literal_facts():
        s.add(f)
    for p in ob.pc:
        s.add(p)
    s.add(z3.Not(goal))
    r = s.check()
    ob.backend = "z3"
    if r == z3.unsat:
        ob.status = "discharged"
        # vacuity guard: the path condition itself must be satisfiable
        if not z3.is_true(goal):
            sv = z3.Solver()
            sv.set("timeout", 2000)
            for f in opaque.literal_facts():
                sv.add(f)
            for p in ob.pc:
                sv.add(p)
            if sv.check() == z3.unsat:
                ob.info["vacuous"] = True
        if os.environ.get("VERIF_TIER") == "thorough" and not os.environ.get("KVC_NO_CROSS"):
            # thorough tier: second opinion on every discharged obligation
            try:
                r2 = cvc5_check(s)
                ob.info["cvc5"] = r2
                if r2 == "unsat":
                    ob.backend = "z3+cvc5"
                elif r2 == "sat":
                    ob.status = "undecided"
                    ob.info["solver"] = "z3 says unsat, cvc5 says sat"
            except Exception as ex:       # noqa: BLE001
                ob.info["cvc5"] = repr(ex)[:200]
    elif r == z3.sat:
        ob.status = "refuted"
        ob.model = s.model()
    else:
        ob.status = "undecided"
        ob.info["solver"] = s.reason_unknown()
        # second opinion
        try:
            r2 = cvc5_check(s)
            if r2 == "unsat":
                ob.status = "discharged"
                ob.backend = "cvc5"
            elif r2 == "sat":
                ob.status = "undecided"
                ob.info["solver"] = "cvc5 sat without model transfer"
        except Exception as ex:       # pragma: no cover
            ob.info["cvc5"] = repr(ex)
    ob.time = time.time() - t0
    return ob


def cvc5_check(z3solver):
    import cvc5
    text = z3solver.to_smt2()
    slv = cvc5.Solver()
    slv.setOption("tlimit-per", str(SOLVER_TIMEOUT_MS))
    slv.setOption("strings-exp", "true")
    slv.setLogic("ALL")
    parser = cvc5.InputParser(slv)
    parser.setStringInput(cvc5.InputLanguage.SMT_LIB_2_6, text, "ob")
    sm = parser.getSymbolManager()
    res = None
    while True:
        cmd = parser.nextCommand()
        if cmd.isNull():
            break
        out = cmd.invoke(slv, sm)
        if "unsat" in out:
            res = "unsat"
        elif "sat" in out and "unsat" not in out:
            res = "sat"
        elif "unknown" in out:
            res = "unknown"
    return res


# ------------------------------------------------------------------------------ outcome of running a body
class Outcome:
    def __init__(self, kind, value=None, exc=None):
        self.kind = kind        # "return" | "raise"
        self.value = value
        self.exc = exc

    def __repr__(self):
        return f"return {self.value!r}" if self.kind == "return" else f"raise {getattr(self.exc, '__name__', self.exc)}"


def run_body(interp, fn, args, kwargs=None):
    try:
        v = interp.call_function(fn, args, kwargs or {})
        return Outcome("return", v)
    except PyRaise as r:
        return Outcome("raise", exc=r.cls)


def make_interp(ctx, registry, exclude=None, inline=None, models=None):
    m = base_models()
    if models:
        m.update(models)

    def summaries(fn):
        if exclude is not None and fn is exclude:
            return None
        return registry.lookup(fn)
    it = Interp(ctx, summaries=summaries, models=m, inline=inline)
    from . import loops
    loops.install(it)
    return it


def path_obligation(res, ctx, name, goal, **info):
    ob = Obligation(name, ctx.pc, goal, info=info)
    res.obligations.append(ob)
    return ob


def collect(res, ctx):
    for ob in ctx.obligations:
        res.obligations.append(ob)
    res.effects.extend(ctx.effects)


def explore_unit(res, run):
    """explore all paths of run(ctx); engine limits become `undecided` entries"""
    t0 = time.time()
    work = [[]]
    n = 0
    while work:
        prefix = work.pop()
        ctx = Ctx(prefix)
        n_before = len(res.obligations)
        try:
            try:
                run(ctx)
            finally:
                res.inlined.update(getattr(ctx, "inlined", {}))
        except Infeasible:
            continue
        except IfaceViolation as ex:
            # the function uses its stream parameter other than through write(bytes)/read(int): the
            # guarantees of every property that assumes the stream contract fail for streams in general
            res.effects.extend(ctx.effects)
            ob = Obligation(f"{res.unit}/stream-used-only-through-read-and-write", ctx.pc, z3.BoolVal(False),
                            info={"expected": "buffer used only through write(bytes) / read(int)", "got": str(ex)})
            res.obligations.append(ob)
        except FrameViolation as ex:
            # the function reads or writes state that outlives the call (a captured or module-level mutable object)
            # with data of the call: what it does is then a function of the call HISTORY, not of its arguments, and
            # every property stated per call fails for some history. Reported as a failing obligation; the unit may
            # supply a native search for a witness history (res.history_replayer).
            if ctx.check(timeout=SOLVER_TIMEOUT_MS) == z3.unsat:
                continue
            res.effects.extend(ctx.effects)
            hr = getattr(res, "history_replayer", None)
            if hr is None:
                res.undecided.append((res.unit, str(ex)))      # only the frame checks (C07, C19) judge it without a witness
                continue
            ob = Obligation(f"{res.unit}/result-depends-only-on-the-arguments", ctx.pc, z3.BoolVal(False),
                            info={"expected": "no state shared between calls", "got": str(ex), "replayer": hr})
            res.obligations.append(ob)
        except Undecided as ex:
            if ctx.check(timeout=SOLVER_TIMEOUT_MS) == z3.unsat:
                continue        # the path is infeasible: nothing to decide
            res.undecided.append((res.unit, str(ex)))
            res.effects.extend(ctx.effects)
            if os.environ.get("KVC_DEBUG"):
                import traceback
                traceback.print_exc()
                print("PC:", ctx.pc)
        except (RecursionError, AttributeError, TypeError, ValueError, KeyError, IndexError, AssertionError, z3.Z3Exception) as ex:
            # an engine limit surfacing as a Python error: undecided, never a violation and never a crash
            import traceback
            res.undecided.append((res.unit, f"engine error: {type(ex).__name__}: {ex}"[:300]))
            if os.environ.get("KVC_DEBUG"):
                traceback.print_exc()
        except Mismatch as ex:
            # structural mismatch: a failed obligation without a formula; refute by sampling
            ob = Obligation(f"{res.unit}/structure", ctx.pc, z3.BoolVal(False), info={"mismatch": str(ex)})
            res.obligations.append(ob)
            collect(res, ctx)
        rp = getattr(res, "replayer", None)
        if rp is not None:
            for ob in res.obligations[n_before:]:
                ob.info.setdefault("replayer", rp)
        for i in range(len(prefix), len(ctx.taken)):
            work.append(ctx.taken[:i] + [not ctx.taken[i]])
        n += 1
        if n > 3000:
            res.undecided.append((res.unit, "path explosion"))
            break
    res.paths += n
    res.time += time.time() - t0
