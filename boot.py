"""Common bootstrap: make the checks import kio from the tree under verification
(KIO_REPO, default /repo: its *working tree*, so edits are seen on the next run)."""
import os
import sys

REPO = os.environ.get("KIO_REPO", "/repo")
VERIF = os.path.dirname(os.path.abspath(__file__))
for p in (VERIF, REPO, os.path.join(REPO, "src")):
    if p in sys.path:
        sys.path.remove(p)
for p in (VERIF, REPO, os.path.join(REPO, "src")):
    sys.path.insert(0, p)
sys.dont_write_bytecode = True
