"""Value domains of the codecs: generic symbolic inhabitants (for-all witnesses), membership
predicates, and concretisation of a solver model back to real Python values (for replay)."""
from __future__ import annotations

import datetime
import uuid
import z3

from kvc import opaque
from kvc.core import (Bsort, Ctx, Raw, SBool, SBytes, SInt, SOpaque, SOpt, SRec, SSeq, SStr, Sym, Undecided,
                      blen, encodable, lower, ulen, utf8, utf8dec, valid_utf8, zint)
from spec.kafka import be_range, LEN_LIMIT

UV5 = 2 ** 35
UV10 = 2 ** 70


def error_code_values():
    from kio.schema.errors import ErrorCode
    return sorted(m.value for m in ErrorCode)


def td_ms_range(w):
    """millisecond range of the whole-millisecond durations of the w-byte duration type"""
    if w == 4:
        return -(2 ** 31), 2 ** 31 - 1
    lo_us = opaque.TD_MIN_US
    hi_us = opaque.TD_MAX_US - 86400 * 10 ** 6
    lo = -((-lo_us) // 1000)
    hi = hi_us // 1000
    return max(lo, -(2 ** 63)), min(hi, 2 ** 63 - 1)


TS_MAX_MS = opaque.DT_MAX_US // 1000


def generic(ctx: Ctx, d, name, strict=True):
    """a symbolic value ranging over Dom(d) (strict: the canonical domain of C01)"""
    k = d[0]
    if k in ("be", "le"):
        lo, hi = be_range(d[1], d[2])
        return SInt(ctx.int_const(name, lo, hi))
    if k == "bool":
        return SBool(ctx.bool_const(name))
    if k == "f64":
        c = z3.Const(name, opaque.F)
        ctx.inputs[name] = c
        ctx.assume(opaque.isfinite(c))
        return SOpaque(c, "float")
    if k == "uv":
        return SInt(ctx.int_const(name, 0, (d[1] if len(d) > 1 else UV10) - 1))
    if k == "clen":
        return SInt(ctx.int_const(name, -1, LEN_LIMIT))
    if k == "sv":
        return SInt(ctx.int_const(name, -(2 ** (d[1] - 1)), 2 ** (d[1] - 1) - 1))
    if k in ("cstr", "lstr"):
        c = ctx.str_const(name)
        ctx.assume(encodable(c))
        ctx.assume(ulen(c) <= (32767 if k == "lstr" else LEN_LIMIT - 1))
        b = utf8(c)
        ctx.assume(blen(b) == ulen(c))
        ctx.assume(utf8dec(b) == c)
        ctx.assume(valid_utf8(b))
        return SStr(c)
    if k in ("cbytes", "lbytes"):
        c = ctx.bytes_const(name)
        ctx.assume(blen(c) <= LEN_LIMIT - 1)
        return SBytes([Raw(c)])
    if k in ("ncstr", "nlstr", "ncbytes", "nlbytes"):
        return SOpt(ctx.bool_const(name + "?none"), generic(ctx, (k[1:],), name, strict))
    if k == "uuid":
        c = z3.Const(name, opaque.U)
        ctx.inputs[name] = c
        zero = opaque.literal("uuid", uuid.UUID(int=0))
        ctx.assume(c != zero)
        b = opaque.uuid_bytes(c)
        ctx.assume(blen(b) == 16)
        ctx.assume(opaque.uuid_of(b) == c)
        return SOpt(ctx.bool_const(name + "?none"), SOpaque(c, "uuid"))
    if k == "errcode":
        c = ctx.int_const(name)
        ctx.assume(z3.Or(*[c == v for v in error_code_values()]))
        from kio.schema.errors import ErrorCode
        from kvc import models
        models._enum_classes["enum:ErrorCode"] = ErrorCode
        return SOpaque(c, "enum:ErrorCode")
    if k == "td":
        lo, hi = td_ms_range(d[1])
        ms = ctx.int_const(name + "_ms", lo, hi)
        return SOpaque(ms * 1000, "timedelta")
    if k == "ts":
        ms = ctx.int_const(name + "_ms", 0, TS_MAX_MS)
        return SOpaque(ms * 1000, "datetime")
    if k == "nts":
        return SOpt(ctx.bool_const(name + "?none"), generic(ctx, ("ts",), name, strict))
    if k in ("carr", "larr"):
        n = ctx.int_const(name + "_n", 0, LEN_LIMIT)
        item_d = d[1]
        seq = SSeq(n, name, lambda i, _c=ctx, _d=item_d, _n=name: generic(_c, _d, f"{_n}[{i}]", strict))
        seq.item_desc = item_d
        return SOpt(ctx.bool_const(name + "?none"), seq)
    if k == "nb":
        from contracts import records as CR
        return CR.generic_optbytes(ctx, name)
    if k == "absitem":
        c = z3.Const(name, opaque.U)
        ctx.inputs[name] = c
        return SOpaque(c, "absitem")
    if k == "ent":
        from spec import schema_spec
        return schema_spec.generic_entity(ctx, d[1], name, strict)
    if k == "nent":
        from spec import schema_spec
        return SOpt(ctx.bool_const(name + "?none"), schema_spec.generic_entity(ctx, d[1], name, strict))
    raise Undecided(f"generic value for {d}")


# ------------------------------------------------------------------------------ concretisation
class Concretiser:
    """turn symbolic values into real Python values under a z3 model"""

    def __init__(self, model, seed=0):
        self.m = model
        self.bytes_memo = {}
        self.seed = seed

    def ev(self, t):
        return self.m.eval(t, model_completion=True)

    def int_(self, t):
        return self.ev(zint(t)).as_long()

    def bool_(self, t):
        return z3.is_true(self.ev(t))

    def bterm(self, t):
        """bytes for a term of sort B: length from the model, content chosen"""
        key = str(self.ev(t))
        n = self.ev(blen(t))
        n = n.as_long() if z3.is_int_value(n) else 0
        n = max(0, min(n, 70000))
        # literals
        for v, c in opaque._literals["bytes"].items():
            if str(self.ev(c)) == key and len(v) == n:
                return v
        # utf8(s): encode the model string
        if z3.is_app(t) and t.decl().name() == "utf8":
            s = self.str_(t.arg(0))
            return s.encode("utf-8", "surrogatepass")
        if z3.is_app(t) and t.decl().name() == "uuid_bytes":
            return self.uuid_(t.arg(0)).bytes
        if z3.is_app(t) and t.decl().name() == "bslice":
            base = self.bterm(t.arg(0))
            i, j = self.int_(t.arg(1)), self.int_(t.arg(2))
            return base[i:j]
        if key not in self.bytes_memo:
            fill = (len(self.bytes_memo) * 37 + 0x41) % 256
            self.bytes_memo[key] = bytes((fill + i) % 256 for i in range(n))
        b = self.bytes_memo[key]
        return b[:n] if len(b) >= n else b + bytes(n - len(b))

    def str_(self, t):
        v = self.ev(t)
        n = self.ev(ulen(t))
        if z3.is_string_value(v):
            s = v.as_string()
            if z3.is_int_value(n) and len(s.encode("utf-8", "surrogatepass")) == n.as_long():
                return s
        n = n.as_long() if z3.is_int_value(n) else 0
        n = max(0, min(n, 70000))
        # honour the model's code-point count where it says the string is not ASCII: k two-byte characters
        from kvc.core import clen, isascii
        try:
            asc = self.ev(isascii(t))
            c = self.ev(clen(t))
            if z3.is_false(asc) and z3.is_int_value(c) and 0 <= n - c.as_long() <= c.as_long():
                k = n - c.as_long()
                return "\u00e9" * k + "a" * (c.as_long() - k)
        except Exception:        # noqa: BLE001
            pass
        return "a" * n

    def uuid_(self, t):
        key = str(self.ev(t))
        for v, c in opaque._literals["uuid"].items():
            if str(self.ev(c)) == key:
                return v
        return uuid.UUID(int=(abs(hash(key)) % (2 ** 127)) + 1)

    def float_(self, t):
        key = str(self.ev(t))
        for v, c in opaque._literals["float"].items():
            if str(self.ev(c)) == key:
                return v
        # a bit pattern the model pins to literal bytes (e.g. the negative zero)
        try:
            import struct
            bits = str(self.ev(opaque.f64bits(t)))
            for bv, c in opaque._literals["bytes"].items():
                if len(bv) == 8 and str(self.ev(c)) == bits:
                    return struct.unpack(">d", bv)[0]
        except Exception:        # noqa: BLE001
            pass
        return 1.5 + (abs(hash(key)) % 1000)

    def segs(self, segs):
        from kvc.core import Byte, Enc, Lit
        from spec import kafka
        out = b""
        for s in segs:
            if isinstance(s, Lit):
                out += s.b
            elif isinstance(s, Byte):
                out += bytes([self.int_(s.t) % 256])
            elif isinstance(s, Raw):
                out += self.bterm(s.t)
            elif isinstance(s, Enc):
                out += kafka.concrete(s.codec, self.value(s.args[0]))
            else:
                raise Undecided(f"concretise {s!r}")
        return out

    def value(self, v):
        if isinstance(v, SInt):
            return self.int_(v.t)
        if isinstance(v, SBool):
            return self.bool_(v.t)
        if isinstance(v, SStr):
            return self.str_(v.t)
        if isinstance(v, SBytes):
            return self.segs(v.segs)
        if isinstance(v, SOpt):
            return None if self.bool_(v.is_none) else self.value(v.val)
        if isinstance(v, SOpaque):
            if v.kind == "float":
                return self.float_(v.t)
            if v.kind == "uuid":
                return self.uuid_(v.t)
            if v.kind == "timedelta":
                return datetime.timedelta(microseconds=self.int_(v.t))
            if v.kind == "datetime":
                return datetime.datetime(1970, 1, 1, tzinfo=datetime.timezone.utc) + datetime.timedelta(
                    microseconds=self.int_(v.t))
            if v.kind.startswith("enum:"):
                from kvc import models
                return models._enum_classes[v.kind](self.int_(v.t))
        if isinstance(v, SSeq):
            n = max(0, min(self.int_(v.n), 6))
            return tuple(self.value(v.item(i)) for i in range(n))
        if isinstance(v, SRec):
            return v.cls(**{k: self.value(x) for k, x in v.fields.items()})
        if isinstance(v, tuple):
            return tuple(self.value(x) for x in v)
        if isinstance(v, Sym):
            raise Undecided(f"concretise {v!r}")
        return v
