"""Spec of the Kafka magic-2 record batch (written from the message-format documentation and the
statement of C17/C18; independent of kio.records).

  Batch  = be8(base_offset) ++ be4(batch_length) ++ be4(partition_leader_epoch) ++ [02] ++ be4u(crc) ++ post
  post   = be2(attributes) ++ be4(last_offset_delta) ++ be8(base_ts) ++ be8(max_ts) ++ be8(producer_id)
           ++ be2(producer_epoch) ++ be4(base_sequence) ++ be4(n) ++ Rec(r_0) .. Rec(r_{n-1})
  Rec(r) = sv32(|body|) ++ body
  body   = be1(attributes) ++ sv64(ms(r) - base_ts) ++ sv32(offset(r) - base_offset) ++ NB(key) ++ NB(value)
           ++ sv32(#headers) ++ (NB(h.key) ++ NB(h.value))*
  NB(None) = sv32(-1);  NB(x) = sv32(|x|) ++ x
  batch_length = |post| + 9 ;  crc = CRC-32C(post)
For a new batch: base_offset = offset(r_0), last_offset_delta = offset(r_{n-1}) - base_offset,
base_ts = ms(r_0), max_ts = max_i ms(r_i); ms(r) = floor(instant(r) / 1 ms).
"""
from __future__ import annotations

import datetime

EPOCH = datetime.datetime(1970, 1, 1, tzinfo=datetime.timezone.utc)


def ms_of(ts):
    return (ts - EPOCH) // datetime.timedelta(milliseconds=1)


def uv(v):
    out = bytearray()
    while True:
        g = v % 128
        v //= 128
        if v:
            out.append(g | 128)
        else:
            out.append(g)
            return bytes(out)


def sv(v):
    return uv(2 * v if v >= 0 else -2 * v - 1)


def be(w, v, signed=True):
    return int(v).to_bytes(w, "big", signed=signed)


def nb(x):
    return sv(-1) if x is None else sv(len(x)) + bytes(x)


def crc32c_ref(data):
    """bitwise CRC-32C (Castagnoli), independent of the crc32c package"""
    crc = 0xFFFFFFFF
    for b in data:
        crc ^= b
        for _ in range(8):
            crc = (crc >> 1) ^ (0x82F63B78 if crc & 1 else 0)
    return crc ^ 0xFFFFFFFF


def encode_record(r, base_ts, base_offset):
    body = be(1, r.attributes) + sv(ms_of(r.timestamp) - base_ts) + sv(r.offset - base_offset) + nb(r.key) + nb(r.value)
    body += sv(len(r.headers)) + b"".join(nb(h.key) + nb(h.value) for h in r.headers)
    return sv(len(body)) + body


def encode_post(attributes, last_offset_delta, base_ts, max_ts, producer_id, producer_epoch, base_sequence, base_offset, records):
    out = be(2, attributes) + be(4, last_offset_delta) + be(8, base_ts) + be(8, max_ts) + be(8, producer_id)
    out += be(2, producer_epoch) + be(4, base_sequence) + be(4, len(records))
    return out + b"".join(encode_record(r, base_ts, base_offset) for r in records)


def encode_new_batch(nb_):
    rs = nb_.records
    base_offset = rs[0].offset
    base_ts = ms_of(rs[0].timestamp)
    max_ts = max(ms_of(r.timestamp) for r in rs)
    post = encode_post(nb_.attributes, rs[-1].offset - base_offset, base_ts, max_ts, nb_.producer_id, nb_.producer_epoch,
                       nb_.base_sequence, base_offset, rs)
    return (be(8, base_offset) + be(4, len(post) + 9) + be(4, nb_.partition_leader_epoch) + b"\x02"
            + be(4, crc32c_ref(post), False) + post)


def encode_prepared_batch(b):
    post = encode_post(b.attributes, b.last_offset_delta, b.base_timestamp, b.max_timestamp, b.producer_id, b.producer_epoch,
                       b.base_sequence, b.base_offset, b.records)
    return be(8, b.base_offset) + be(4, b.batch_length) + be(4, b.partition_leader_epoch) + b"\x02" + be(4, b.crc, False) + post


# ------------------------------------------------------------------------------ independent decoder
class Cursor:
    def __init__(self, data):
        self.d, self.p = data, 0

    def take(self, n):
        if n < 0 or self.p + n > len(self.d):
            raise ValueError("truncated")
        out = self.d[self.p:self.p + n]
        self.p += n
        return out

    def be(self, w, signed=True):
        return int.from_bytes(self.take(w), "big", signed=signed)

    def uv(self):
        v = 0
        for i in range(10):
            b = self.take(1)[0]
            v |= (b & 127) << (7 * i)
            if b < 128:
                return v
        raise ValueError("varint too long")

    def sv(self):
        z = self.uv()
        return (z >> 1) if z % 2 == 0 else -((z + 1) >> 1)

    def nb(self):
        n = self.sv()
        if n == -1:
            return None
        return self.take(n)


def decode_batch(data):
    """returns a dict of header fields and a list of record dicts (timestamps as epoch ms)"""
    c = Cursor(data)
    out = {"base_offset": c.be(8), "batch_length": c.be(4)}
    start = c.p
    out["partition_leader_epoch"] = c.be(4)
    out["magic"] = c.be(1)
    out["crc"] = c.be(4, False)
    post_start = c.p
    for k, w in (("attributes", 2), ("last_offset_delta", 4), ("base_timestamp", 8), ("max_timestamp", 8),
                 ("producer_id", 8), ("producer_epoch", 2), ("base_sequence", 4)):
        out[k] = c.be(w)
    n = c.be(4)
    recs = []
    for _ in range(n):
        ln = c.sv()
        end = c.p + ln
        r = {"attributes": c.be(1), "timestamp_ms": out["base_timestamp"] + c.sv(), "offset": out["base_offset"] + c.sv(),
             "key": c.nb(), "value": c.nb()}
        r["headers"] = [(c.nb(), c.nb()) for _ in range(c.sv())]
        if c.p != end:
            raise ValueError("record length mismatch")
        recs.append(r)
    out["records"] = recs
    out["crc_ok"] = crc32c_ref(data[post_start:c.p]) == out["crc"]
    out["length_ok"] = out["batch_length"] == c.p - start
    out["consumed"] = c.p
    return out
