"""Kafka wire encodings as mathematical spec functions (written from the protocol guide and the
statements of properties C02/C11, not from kio's code).

A codec descriptor is a hashable tuple.  For each descriptor this module gives
  * enc_length   - the byte length as a z3 Int term / int,
  * unfold       - one level of the definition, as a list of lower-level segments
                   (may fork on the context, e.g. null / non-null),
  * concrete     - the encoding of a concrete Python value (used for replay and for the
                   two-interpretation agreement test),
  * domain facts - `in_domain` (z3 Bool) of the values that have an encoding.

Descriptors
  ("be", w, signed)        big-endian two's complement / unsigned, w bytes, value int
  ("le", w, signed)        little-endian (NOT a Kafka encoding; only what a non-">" struct format denotes)
  ("bool",)                one byte 01 / 00
  ("f64",)                 IEEE-754 binary64 big-endian, value opaque float
  ("uv",)                  minimal base-128 unsigned varint of v >= 0 (at most 10 groups for v < 2^70)
  ("sv", 32|64)            zig-zag signed varint: uv(zz(v))
  ("cstr",) ("ncstr",)     compact string:  uv(len+1) ++ utf8 ; nullable adds uv(0)
  ("cbytes",) ("ncbytes",) compact bytes
  ("lstr",) ("nlstr",)     legacy string: be(2,len) ++ utf8 ; null be(2,-1) ; len <= 32767
  ("lbytes",) ("nlbytes",) legacy bytes: be(4,len) ++ b ; null be(4,-1)
  ("uuid",)                16 bytes, None <-> 16 zero bytes
  ("errcode",)             be(2, code)
  ("td", 4|8)              be(w, milliseconds)
  ("ts",) ("nts",)         be(8, epoch milliseconds) ; nullable: None <-> -1
  ("carr", item) ("larr", item)   arrays (value: sequence or None)
  ("ent", T) ("nent", T)   struct T / nullable struct (marker byte -1 / 1)
  ("tagged", T)            tagged-field section of T
"""
from __future__ import annotations

import struct
import z3

from kvc.core import (Byte, Enc, Lit, Raw, SBool, SBytes, SInt, SOpaque, SOpt, SRec, SSeq, SStr, Sym,
                      Undecided, blen, ulen, utf8, zint, total_len, normalise, lower)

UV5_MAX = 2 ** 35 - 1
UV10_MAX = 2 ** 70 - 1
LEN_LIMIT = 2 ** 31 - 1      # Kafka lengths are int32 at most


def uvlen(v, maxbytes=10):
    """number of bytes of the minimal base-128 encoding of v >= 0"""
    if isinstance(v, int):
        n = 1
        while v >= 128:
            v >>= 7
            n += 1
        return n
    t = z3.IntVal(maxbytes)
    for k in range(maxbytes - 1, 0, -1):
        t = z3.If(v < 128 ** k, z3.IntVal(k), t)
    return t


def zz(v, bits):
    """zig-zag: 0,-1,1,-2,... -> 0,1,2,3,..."""
    if isinstance(v, int):
        return 2 * v if v >= 0 else -2 * v - 1
    return z3.If(v >= 0, 2 * v, -2 * v - 1)


def be_range(w, signed):
    return (-(1 << (8 * w - 1)), (1 << (8 * w - 1)) - 1) if signed else (0, (1 << (8 * w)) - 1)


# ------------------------------------------------------------------------------ lengths
def _len_of_value_bytes(v):
    if isinstance(v, (bytes, bytearray)):
        return len(v)
    if isinstance(v, SBytes):
        return v.length()
    raise Undecided(f"bytes length of {v!r}")


def _len_of_str(v):
    if isinstance(v, str):
        return len(v.encode("utf-8", "surrogatepass"))
    if isinstance(v, SStr):
        return ulen(v.t)
    raise Undecided(f"utf8 length of {v!r}")


def _plus(a, b):
    if isinstance(a, int) and isinstance(b, int):
        return a + b
    return zint(a) + zint(b)


def _ite(c, a, b):
    if isinstance(c, bool):
        return a if c else b
    return z3.If(c, zint(a), zint(b))


def _is_none(v):
    if v is None:
        return True
    if isinstance(v, SOpt):
        return v.is_none
    return False


def _some(v):
    return v.val if isinstance(v, SOpt) else v


_elen_cache = {}


def enc_length(seg):
    d, args = seg.codec, seg.args
    k = d[0]
    if k in ("be", "le"):
        return d[1]
    if k == "bool":
        return 1
    if k == "f64":
        return 8
    if k == "uv":
        v = args[0]
        return uvlen(v if isinstance(v, int) else zint(v), 10)
    if k == "clen":
        v = args[0]
        return uvlen(v + 1 if isinstance(v, int) else zint(v) + 1, 10)
    if k == "sv":
        v = args[0]
        return uvlen(zz(v if isinstance(v, int) else zint(v), d[1]), 10)
    if k in ("cstr", "ncstr", "lstr", "nlstr", "cbytes", "ncbytes", "lbytes", "nlbytes"):
        v = args[0]
        none = _is_none(v)
        compact = k in ("cstr", "ncstr", "cbytes", "ncbytes")
        isstr = "str" in k
        if none is True:
            return 1 if compact else (2 if isstr else 4)
        inner = _some(v)
        ln = _len_of_str(inner) if isinstance(inner, (str, SStr)) else _len_of_value_bytes(inner)
        if compact:
            body = _plus(uvlen(_plus(ln, 1) if isinstance(ln, int) else zint(ln) + 1, 10), ln)
            null = 1
        else:
            body = _plus(2 if isstr else 4, ln)
            null = 2 if isstr else 4
        return body if none is False else _ite(none, null, body)
    if k == "uuid":
        return 16
    if k == "errcode":
        return 2
    if k == "td":
        return d[1]
    if k in ("ts", "nts"):
        return 8
    # composite encodings: an abstract non-negative length per (descriptor, value identity)
    key = (d, tuple(id(a) for a in args))
    if key not in _elen_cache:
        c = z3.Int(f"elen!{len(_elen_cache)}")
        _elen_cache[key] = (c, args)     # keep args alive so ids stay unique
    return _elen_cache[key][0]


def length_facts(seg):
    """facts about abstract lengths the engine may assume (each is a theorem of the spec)"""
    ln = seg.length()
    if isinstance(ln, int):
        return []
    facts = [ln >= 0]
    k = seg.codec[0]
    if k in ("ent", "nent", "absitem"):
        facts.append(ln >= min_len(seg.codec))
    if k in ("carr", "larr"):
        facts.append(ln >= (1 if k == "carr" else 4))
    if k == "run":
        v = seg.args[0]
        if isinstance(v, SSeq):
            facts.append(z3.Implies(v.n == 0, ln == 0))
            facts.append(ln >= v.n * min_len(seg.codec[1]))
    return facts


def min_len(d):
    """a lower bound on the encoded length for every value (used for termination variants)"""
    k = d[0]
    if k in ("be", "le", "td"):
        return d[1]
    if k in ("bool", "uv", "clen", "sv", "cstr", "ncstr", "cbytes", "ncbytes", "carr", "nent", "tagged"):
        return 1
    if k in ("lstr", "nlstr", "errcode"):
        return 2
    if k in ("lbytes", "nlbytes", "larr"):
        return 4
    if k in ("f64", "ts", "nts"):
        return 8
    if k == "uuid":
        return 16
    if k == "ent":
        from spec import schema_spec
        return schema_spec.min_len_entity(d[1])
    if k == "run":
        return 0
    if k == "absitem":
        return 1
    raise Undecided(f"min_len {d}")


# ------------------------------------------------------------------------------ unfolding
def uv_bytes(v, n):
    """the n bytes of uv(v) given that v has exactly n groups"""
    out = []
    for i in range(n):
        g = (v / (128 ** i)) % 128 if not isinstance(v, int) else (v >> (7 * i)) & 0x7F
        if i < n - 1:
            g = g + 128
        out.append(Byte(g) if not isinstance(g, int) else Lit(bytes([g])))
    return out


def unfold(ctx, seg):
    """one level of definition; returns a list of segments. May fork (ctx.decide).
    Also records the definitional fact |seg| == sum of the parts' lengths."""
    parts = _unfold(ctx, seg)
    ln = seg.length()
    for p in parts:
        if isinstance(p, Enc):
            for f in length_facts(p):
                ctx.assume(f)
    if not isinstance(ln, int):
        ctx.assume(zint(ln) == zint(total_len(normalise(parts))))
    return parts


def _unfold(ctx, seg):
    d, args = seg.codec, seg.args
    k = d[0]
    if k == "uv":
        v = args[0]
        if isinstance(v, int):
            return [Lit(concrete(d, v))]
        v = zint(v)
        maxb = 10
        n = maxb
        for k_ in range(1, maxb):
            if ctx.decide(v < 128 ** k_):
                n = k_
                break
        # the n base-128 digits of v, least significant first, as fresh integers tied to v by
        # linear constraints (they are uniquely determined, so this is a definitional extension)
        gs = [ctx.int_const(ctx.fresh("g"), 0, 127) for _ in range(n)]
        tot = gs[0]
        for i in range(1, n):
            tot = tot + gs[i] * (128 ** i)
        ctx.assume(v == tot)
        if n > 1:
            ctx.assume(gs[-1] >= 1)
        for i, g in enumerate(gs):      # the same digits in quotient/remainder form (a theorem)
            ctx.assume(g == ((v / (128 ** i)) % 128 if i else v % 128))
        return [Byte(g + 128) for g in gs[:-1]] + [Byte(gs[-1])]
    if k == "sv":
        v = args[0]
        return [Enc(("uv",), lower(zz(zint(v), d[1])) if not isinstance(v, int) else zz(v, d[1]))]
    if k == "clen":
        v = args[0]
        return [Enc(("uv",), v + 1 if isinstance(v, int) else lower(zint(v) + 1))]
    if k in ("ncstr", "ncbytes", "nlstr", "nlbytes"):
        v = args[0]
        none = _is_none(v)
        if none is not False and (none is True or ctx.decide(none)):
            return {"ncstr": [Lit(b"\x00")], "ncbytes": [Lit(b"\x00")],
                    "nlstr": [Lit(b"\xff\xff")], "nlbytes": [Lit(b"\xff\xff\xff\xff")]}[k]
        return [Enc((k[1:],), _some(v))]
    if k in ("cstr", "cbytes", "lstr", "lbytes"):
        v = _some(args[0])
        if isinstance(v, (str, SStr)):
            ln = _len_of_str(v)
            body = Lit(v.encode()) if isinstance(v, str) else Raw(utf8(v.t))
        else:
            ln = _len_of_value_bytes(v)
            body = None
        if k in ("cstr", "cbytes"):
            head = Enc(("uv",), lower(zint(ln) + 1) if not isinstance(ln, int) else ln + 1)
        elif k == "lstr":
            head = Enc(("be", 2, True), lower(ln) if not isinstance(ln, int) else ln)
        else:
            head = Enc(("be", 4, True), lower(ln) if not isinstance(ln, int) else ln)
        if body is not None:
            return [head, body]
        return [head] + list(v.segs if isinstance(v, SBytes) else [Lit(v)])
    if k == "errcode":
        v = args[0]
        if isinstance(v, SOpaque):
            return [Enc(("be", 2, True), lower(v.t))]
        return [Enc(("be", 2, True), v.value)]
    if k == "uuid":
        from kvc import opaque
        v = args[0]
        none = _is_none(v)
        if none is not False and (none is True or ctx.decide(none)):
            return [Lit(b"\x00" * 16)]
        v = _some(v)
        if isinstance(v, SOpaque):
            b = opaque.uuid_bytes(v.t)
            ctx.assume(blen(b) == 16)
            ctx.assume(opaque.uuid_of(b) == v.t)
            return [Raw(b)]
        return [Lit(v.bytes)]
    if k == "td":
        from kvc import opaque
        v = args[0]
        us = v.t if isinstance(v, SOpaque) else z3.IntVal(opaque.td_us(v))
        return [Enc(("be", d[1], True), lower(us / 1000))]
    if k in ("ts", "nts"):
        from kvc import opaque
        v = args[0]
        none = _is_none(v)
        if k == "nts" and none is not False and (none is True or ctx.decide(none)):
            return [Lit(b"\xff" * 8)]
        v = _some(v)
        us = v.t if isinstance(v, SOpaque) else z3.IntVal(opaque.dt_us(v))
        return [Enc(("be", 8, True), lower(us / 1000))]
    if k in ("carr", "larr"):
        v = args[0]
        none = _is_none(v)
        if none is not False and (none is True or ctx.decide(none)):
            return [Lit(b"\x00")] if k == "carr" else [Lit(b"\xff" * 4)]
        v = _some(v)
        n = len(v) if isinstance(v, (tuple, list)) else lower(v.n)
        head = Enc(("clen",), n) if k == "carr" else Enc(("be", 4, True), n)
        return [head, Enc(("run", d[1]), v)]
    if k == "run":
        v = args[0]
        if isinstance(v, (tuple, list)):
            return [Enc(d[1], x) for x in v]
        if isinstance(v, SSeq) and ctx.entails(v.n == 0):
            return []
        raise Undecided("run over a symbolic sequence cannot be unfolded")
    if k == "nent":
        v = args[0]
        none = _is_none(v)
        if none is not False and (none is True or ctx.decide(none)):
            return [Lit(b"\xff")]
        return [Lit(b"\x01"), Enc(("ent", d[1]), _some(v))]
    if k == "ent":
        from spec import schema_spec
        return schema_spec.unfold_entity(ctx, d[1], args[0])
    if k == "tagged":
        from spec import schema_spec
        return schema_spec.unfold_tagged(ctx, d[1], args[0])
    raise Undecided(f"no unfolding for {d}")


# ------------------------------------------------------------------------------ concrete
def concrete(d, v):
    """bytes of a concrete Python value under descriptor d (independent of kio and struct for
    the integer codecs)"""
    import datetime
    import uuid
    k = d[0]
    if k == "be":
        return int(v).to_bytes(d[1], "big", signed=d[2])
    if k == "le":
        return int(v).to_bytes(d[1], "little", signed=d[2])
    if k == "bool":
        return b"\x01" if v else b"\x00"
    if k == "f64":
        return struct.pack(">d", v)
    if k == "uv":
        if v < 0 or v >= 128 ** 10:
            raise ValueError("uv domain")
        out = bytearray()
        while True:
            g = v % 128
            v //= 128
            if v:
                out.append(g + 128)
            else:
                out.append(g)
                return bytes(out)
    if k == "sv":
        return concrete(("uv",), zz(int(v), d[1]))
    if k == "clen":
        return concrete(("uv",), int(v) + 1)
    if k in ("ncstr", "ncbytes", "nlstr", "nlbytes"):
        if v is None:
            return {"ncstr": b"\x00", "ncbytes": b"\x00", "nlstr": b"\xff\xff", "nlbytes": b"\xff" * 4}[k]
        return concrete((k[1:],), v)
    if k in ("cstr", "cbytes"):
        u = v.encode() if isinstance(v, str) else bytes(v)
        return concrete(("uv",), len(u) + 1) + u
    if k == "lstr":
        u = v.encode() if isinstance(v, str) else bytes(v)
        if len(u) > 32767:
            raise ValueError("legacy string too long")
        return concrete(("be", 2, True), len(u)) + u
    if k == "lbytes":
        u = bytes(v)
        return concrete(("be", 4, True), len(u)) + u
    if k == "uuid":
        return b"\x00" * 16 if v is None else v.bytes
    if k == "errcode":
        return concrete(("be", 2, True), v.value if hasattr(v, "value") else int(v))
    if k == "td":
        us = (v.days * 86400 + v.seconds) * 10 ** 6 + v.microseconds
        ms, r = divmod(us, 1000)
        if r * 2 > 1000 or (r * 2 == 1000 and ms % 2 == 1):
            ms += 1      # round half to even, as Python's round()
        return concrete(("be", d[1], True), ms)
    if k in ("ts", "nts"):
        if v is None:
            return concrete(("be", 8, True), -1)
        epoch = datetime.datetime(1970, 1, 1, tzinfo=datetime.timezone.utc)
        delta = v - epoch
        us = (delta.days * 86400 + delta.seconds) * 10 ** 6 + delta.microseconds
        return concrete(("be", 8, True), us // 1000)
    if k == "run":
        return b"".join(concrete(d[1], x) for x in v)
    if k in ("carr", "larr"):
        if v is None:
            return b"\x00" if k == "carr" else b"\xff" * 4
        head = concrete(("uv",), len(v) + 1) if k == "carr" else concrete(("be", 4, True), len(v))
        return head + b"".join(concrete(d[1], x) for x in v)
    if k == "ent":
        from spec import schema_spec
        return schema_spec.encode_entity(d[1], v)
    if k == "nent":
        if v is None:
            return b"\xff"
        return b"\x01" + concrete(("ent", d[1]), v)
    raise Undecided(f"concrete {d}")


# ------------------------------------------------------------------------------ concrete decoding
def parse_concrete(d, b):
    """decode a canonical encoding under descriptor d from the front of concrete bytes;
    returns (value, consumed) or None when b does not start with a canonical encoding"""
    import uuid as _uuid
    k = d[0]
    try:
        if k in ("be", "le"):
            if len(b) < d[1]:
                return None
            return int.from_bytes(b[:d[1]], "big" if k == "be" else "little", signed=d[2]), d[1]
        if k == "bool":
            if len(b) < 1 or b[0] not in (0, 1):
                return None
            return bool(b[0]), 1
        if k == "uv":
            v = 0
            for i in range(min(10, len(b))):
                v |= (b[i] & 0x7F) << (7 * i)
                if b[i] < 128:
                    if concrete(d, v) != b[:i + 1]:
                        return None
                    return v, i + 1
            return None
        if k == "clen":
            r = parse_concrete(("uv",), b)
            return None if r is None else (r[0] - 1, r[1])
        if k == "sv":
            r = parse_concrete(("uv",), b)
            if r is None:
                return None
            z = r[0]
            return ((z >> 1) if z % 2 == 0 else -((z + 1) >> 1)), r[1]
        if k in ("ncbytes", "ncstr", "cbytes", "cstr"):
            r = parse_concrete(("uv",), b)
            if r is None:
                return None
            n, c = r[0] - 1, r[1]
            if n == -1:
                return (None, c) if k[0] == "n" else None
            if len(b) < c + n:
                return None
            u = b[c:c + n]
            return (u.decode() if "str" in k else u), c + n
        if k in ("nlbytes", "nlstr", "lbytes", "lstr"):
            w = 2 if "str" in k else 4
            if len(b) < w:
                return None
            n = int.from_bytes(b[:w], "big", signed=True)
            if n == -1:
                return (None, w) if k[0] == "n" else None
            if n < 0 or len(b) < w + n:
                return None
            u = b[w:w + n]
            return (u.decode() if "str" in k else u), w + n
        if k == "uuid":
            if len(b) < 16:
                return None
            return (None if b[:16] == bytes(16) else _uuid.UUID(bytes=b[:16])), 16
    except (UnicodeDecodeError, ValueError):
        return None
    return None
