"""The independent spec E_T: what the Kafka protocol prescribes for an entity class, derived from
the *declared* schema only (dataclasses.fields: annotation, kafka_type, tag, default; the class
variables __flexible__; the class name for the request-header rule) and from the encoding rules
in the statement of C02.  Shares no code with kio.serial.

  E_T(x) = concat over untagged fields in declaration order of enc_f(x.f)
           ++ (if T is flexible) uv(k) ++ concat over tagged fields in ascending tag order with
              x.f != default_f of  uv(tag) ++ uv(|p|) ++ p ,  p = enc_f^tag(x.f)
"""
from __future__ import annotations

import dataclasses
import datetime
import types
import typing
import uuid

from kvc.core import Enc, Lit, SOpt, SRec, Undecided, lower, sym_eq, tobool, zint


class FieldSpec(typing.NamedTuple):
    name: str
    desc: tuple
    tag: int | None
    default: object          # dataclasses.MISSING when there is none
    nullable: bool
    is_array: bool
    item_type: object


PRIMITIVE_DESC = {
    "int8": ("be", 1, True), "int16": ("be", 2, True), "int32": ("be", 4, True), "int64": ("be", 8, True),
    "uint8": ("be", 1, False), "uint16": ("be", 2, False), "uint32": ("be", 4, False), "uint64": ("be", 8, False),
    "float64": ("f64",), "bool": ("bool",), "uuid": ("uuid",), "error_code": ("errcode",),
    "timedelta_i32": ("td", 4), "timedelta_i64": ("td", 8),
}


def split_optional(tp):
    origin = typing.get_origin(tp)
    if origin in (types.UnionType, typing.Union):
        args = [a for a in typing.get_args(tp) if a is not type(None)]
        if len(args) == 1 and len(typing.get_args(tp)) == 2:
            return args[0], True
        raise Undecided(f"unsupported union {tp}")
    return tp, False


def primitive_desc(kafka_type, flexible, nullable):
    if kafka_type in PRIMITIVE_DESC:
        return PRIMITIVE_DESC[kafka_type]
    if kafka_type == "string":
        base = "cstr" if flexible else "lstr"
    elif kafka_type in ("bytes", "records"):
        base = "cbytes" if flexible else "lbytes"
    elif kafka_type == "datetime_i64":
        base = "ts"
    else:
        raise Undecided(f"unknown kafka_type {kafka_type!r}")
    return (("n" + base) if nullable else base,)


_plan_cache = {}


def field_plan(T):
    if T in _plan_cache:
        return _plan_cache[T]
    hints = typing.get_type_hints(T)
    flexible = T.__flexible__
    out = []
    for f in dataclasses.fields(T):
        tp = hints[f.name]
        tag = f.metadata.get("tag")
        kt = f.metadata.get("kafka_type")
        inner, nullable = split_optional(tp)
        is_array = typing.get_origin(inner) is tuple
        item = None
        if T.__name__ == "RequestHeader" and f.name == "client_id":
            desc = ("nlstr",)
        elif is_array:
            args = typing.get_args(inner)
            if len(args) != 2 or args[1] is not Ellipsis:
                raise Undecided(f"array annotation {tp}")
            item, item_nullable = split_optional(args[0])
            if dataclasses.is_dataclass(item):
                idesc = ("ent", item)
            else:
                idesc = primitive_desc(kt, flexible, item_nullable)
            desc = ("carr" if flexible else "larr", idesc)
        elif dataclasses.is_dataclass(inner):
            desc = ("nent", inner) if (nullable and tag is None) else ("ent", inner)
        else:
            # a tagged field's own null form is disabled: absence of the tag carries the default
            desc = primitive_desc(kt, flexible, nullable and tag is None)
        out.append(FieldSpec(f.name, desc, tag, f.default, nullable, is_array, item if is_array else inner))
    _plan_cache[T] = out
    return out


def implicit_default(fs: FieldSpec):
    """the implicit default of a tagged field without an explicit one: the zero of its type"""
    d = fs.desc
    k = d[0]
    if k == "be":
        return 0
    if k == "f64":
        return 0.0
    if k == "bool":
        return False
    if k in ("cstr", "lstr"):
        return ""
    if k in ("cbytes", "lbytes"):
        return b""
    if k == "uuid":
        return uuid.UUID(int=0)
    if k == "td":
        return datetime.timedelta(0)
    if k == "ts":
        return datetime.datetime(1970, 1, 1, tzinfo=datetime.timezone.utc)
    if k == "ent":
        N = d[1]
        kw = {}
        for g in field_plan(N):
            kw[g.name] = g.default if g.default is not dataclasses.MISSING else implicit_default(g)
        return N(**kw)
    raise Undecided(f"no implicit default for {d}")


def default_of(fs: FieldSpec):
    return fs.default if fs.default is not dataclasses.MISSING else implicit_default(fs)


def tagged_fields(T):
    return sorted((fs for fs in field_plan(T) if fs.tag is not None), key=lambda fs: fs.tag)


def unfold_entity(ctx, T, x):
    plan = field_plan(T)
    segs = [Enc(fs.desc, field_value(x, fs.name)) for fs in plan if fs.tag is None]
    if T.__flexible__:
        segs.append(Enc(("tagged", T), x))
    return segs


def field_value(x, name):
    if isinstance(x, SRec):
        return x.fields[name]
    return getattr(x, name)


def unfold_tagged(ctx, T, x):
    """uv(k) ++ entries, deciding for every tagged field whether it carries its default"""
    entries = []
    for fs in tagged_fields(T):
        v = field_value(x, fs.name)
        eq = sym_eq(v, default_of(fs), ctx)
        is_default = eq if isinstance(eq, bool) else ctx.decide(tobool(eq))
        if is_default:
            continue
        if isinstance(v, SOpt):
            v = v.val            # non-default implies non-null when the default is None
        payload = Enc(fs.desc, v)
        from spec import kafka
        for f in kafka.length_facts(payload):
            ctx.assume(f)
        plen = payload.length()
        entries.append([Enc(("uv",), fs.tag), Enc(("uv",), plen if isinstance(plen, int) else lower(zint(plen))), payload])
    out = [Enc(("uv",), len(entries))]
    for e in entries:
        out.extend(e)
    return out


def generic_entity(ctx, T, name, strict=True):
    from spec import domains
    fields = {}
    for fs in field_plan(T):
        d = fs.desc
        # a tagged optional field ranges over None as well (None is its default)
        if fs.tag is not None and fs.nullable and d[0] not in ("carr", "larr"):
            v = domains.generic(ctx, d, f"{name}.{fs.name}", strict)
            v = SOpt(ctx.bool_const(f"{name}.{fs.name}?none"), v) if not isinstance(v, SOpt) else v
        elif d[0] in ("carr", "larr") and not fs.nullable:
            v = domains.generic(ctx, d, f"{name}.{fs.name}", strict)
            v = v.val            # declared non-nullable array: never None in canonical instances
        else:
            v = domains.generic(ctx, d, f"{name}.{fs.name}", strict)
        fields[fs.name] = v
        if fs.tag is not None:
            # Dom_T: the encoded payload of a tagged field is shorter than 2^35 bytes (its size
            # prefix is an unsigned varint) - a precondition, stated in the evidence
            from spec import kafka
            pv = v.val if isinstance(v, SOpt) and d[0] not in ("carr", "larr", "uuid") else v
            p = Enc(d, pv)
            for f in kafka.length_facts(p):
                ctx.assume(f)
            ln = p.length()
            if not isinstance(ln, int):
                ctx.assume(zint(ln) < 2 ** 35)
    return SRec(T, fields)


_minlen = {}


def min_len_entity(T):
    if T in _minlen:
        return _minlen[T]
    _minlen[T] = 0          # cycle guard (the nesting graph is checked acyclic elsewhere)
    from spec import kafka
    n = sum(kafka.min_len(fs.desc) for fs in field_plan(T) if fs.tag is None)
    if T.__flexible__:
        n += 1
    _minlen[T] = n
    return n


def encode_entity(T, x):
    """concrete reference encoder (replay oracle)"""
    from spec import kafka
    out = b""
    for fs in field_plan(T):
        if fs.tag is None:
            out += kafka.concrete(fs.desc, getattr(x, fs.name))
    if T.__flexible__:
        entries = []
        for fs in tagged_fields(T):
            v = getattr(x, fs.name)
            if v == default_of(fs):
                continue
            p = kafka.concrete(fs.desc, v)
            entries.append(kafka.concrete(("uv",), fs.tag) + kafka.concrete(("uv",), len(p)) + p)
        out += kafka.concrete(("uv",), len(entries)) + b"".join(entries)
    return out
