#!/usr/bin/env python3
"""Prints the markdown table 'which checks catch which seeded change' from seeded/*/meta.json."""
import glob
import json
import os

HERE = os.path.dirname(os.path.dirname(os.path.abspath(__file__)))
rows = []
for f in sorted(glob.glob(os.path.join(HERE, "seeded", "*", "meta.json"))):
    d = json.load(open(f))
    rows.append((d["name"], d["property"], ", ".join(d.get("files", [])), d.get("needs", ""), ", ".join(d["caught_by"]) or "-",
                 ", ".join(d["undecided_in"]) or "-"))
print("| change | breaks | file(s) | needs, to manifest | caught by (exit 1) | undecided (exit 2) |")
print("|---|---|---|---|---|---|")
for r in rows:
    print("| " + " | ".join(r) + " |")
