#!/usr/bin/env python3
"""Evaluate a seeded breaking change produced in a scratch worktree:
  tools/seed_eval.py <worktree> <property id> <name> [--tests] [--checks C01,C02,...]
1. saves `git diff` as seeded/<name>/patch.diff and the demo program;
2. confirms the demo fails with the change and passes on a pristine checkout of /repo HEAD;
3. optionally re-runs the (non-Docker) test suite with the change;
4. runs the given checks (default: all) against the changed worktree (KIO_REPO) and records which
   report a VIOLATION / UNDECIDED / nothing.  Never touches /repo's working tree."""
import json
import os
import re
import shutil
import subprocess
import sys
import tempfile

VERIF = os.path.dirname(os.path.dirname(os.path.abspath(__file__)))
ALL = ["C01", "C02", "C03", "C05", "C06", "C07", "C08", "C09", "C10", "C11", "C12", "C13", "C14", "C15", "C16", "C17", "C18", "C19"]


def sh(cmd, cwd=None, env=None, timeout=3600):
    p = subprocess.run(cmd, shell=True, cwd=cwd, env=env, capture_output=True, text=True, timeout=timeout)
    return p.returncode, p.stdout + p.stderr


def main():
    wt, pid, name = sys.argv[1:4]
    run_tests = "--tests" in sys.argv
    checks = ALL
    if "--checks" in sys.argv:
        checks = sys.argv[sys.argv.index("--checks") + 1].split(",")
    out = os.path.join(VERIF, "seeded", name)
    os.makedirs(out, exist_ok=True)
    rc, diff = sh("git diff -- src codegen", cwd=wt)
    open(os.path.join(out, "patch.diff"), "w").write(diff)
    demo = os.path.join(wt, f"demo_{pid}.py")
    meta = {"property": pid, "name": name, "files": sorted(set(re.findall(r"^\+\+\+ b/(.*)$", diff, re.M)))}
    env = dict(os.environ, PYTHONPATH=f"{wt}/src:{wt}")
    if os.path.exists(demo):
        shutil.copy(demo, os.path.join(out, os.path.basename(demo)))
        rc1, o1 = sh(f"/venv/bin/python {demo}", cwd=wt, env=env)
        meta["demo_with_change"] = {"exit": rc1, "tail": o1[-400:]}
        pristine = tempfile.mkdtemp(prefix="seed_pristine_")
        sh(f"git -C /repo worktree add -q --detach {pristine}/wt HEAD && cp /repo/src/kio/_version.py {pristine}/wt/src/kio/")
        env2 = dict(os.environ, PYTHONPATH=f"{pristine}/wt/src:{pristine}/wt")
        demo2 = os.path.join(pristine, "wt", os.path.basename(demo))
        shutil.copy(demo, demo2)
        src = open(demo2).read().replace(wt, f"{pristine}/wt")
        open(demo2, "w").write(src)
        rc2, o2 = sh(f"/venv/bin/python {demo2}", cwd=f"{pristine}/wt", env=env2)
        meta["demo_without_change"] = {"exit": rc2, "tail": o2[-400:]}
        sh(f"git -C /repo worktree remove --force {pristine}/wt")
        shutil.rmtree(pristine, ignore_errors=True)
    if run_tests:
        rc, o = sh(f'/venv/bin/python -m pytest -q -p no:cacheprovider tests src -k "not java and not integration"', cwd=wt,
                   env=dict(os.environ, PYTHONPATH=f"{wt}/src"))
        m = re.findall(r"(\d+) passed", o)
        f = re.findall(r"(\d+) failed", o)
        meta["tests_with_change"] = {"exit": rc, "passed": int(m[-1]) if m else None, "failed": int(f[-1]) if f else 0}
    res = {}
    old = os.path.join(out, "meta.json")
    if "--checks" in sys.argv and os.path.exists(old):
        prev = json.load(open(old))
        res = prev.get("checks", {})          # keep earlier verdicts of the checks not re-run now
        for k in ("demo_with_change", "demo_without_change", "tests_with_change"):
            if k in prev and k not in meta:
                meta[k] = prev[k]
    for c in checks:
        rc, o = sh(f"./vf check {c} --tier quick", cwd=VERIF, env=dict(os.environ, KIO_REPO=wt), timeout=1800)
        viol = [ln for ln in o.splitlines() if ln.startswith("VIOLATION")]
        res[c] = {"exit": rc, "violations": len(viol), "first": (viol[0][:300] if viol else None),
                  "undecided": sum(1 for ln in o.splitlines() if ln.startswith("UNDECIDED")),
                  "summary": next((ln for ln in o.splitlines() if ln.startswith(c + " [")), "")[:200]}
        if viol:
            m = re.search(r"replay=(\S+)", viol[0])
            if m and os.path.exists(m.group(1)):
                try:
                    d = json.load(open(m.group(1)))
                    res[c]["replay_excerpt"] = {k: str(d.get(k))[:300] for k in ("obligation", "expected", "observed")}
                    res[c]["replay_confirmed"] = (d.get("replay") or {}).get("confirmed")
                except Exception:
                    pass
    meta["checks"] = res
    meta["caught_by"] = [c for c, r in res.items() if r["exit"] == 1]
    meta["undecided_in"] = [c for c, r in res.items() if r["exit"] == 2]
    meta["checker_error_in"] = [c for c, r in res.items() if r["exit"] not in (0, 1, 2)]
    meta["what_was_run"] = "tools/seed_eval.py: demo with/without the change; " + ("non-Docker test suite with the change; " if run_tests else "") + "./vf check <ID> --tier quick with KIO_REPO=<changed worktree> for " + ",".join(checks)
    json.dump(meta, open(os.path.join(out, "meta.json"), "w"), indent=1)
    print(json.dumps({k: meta[k] for k in ("property", "name", "caught_by", "undecided_in", "checker_error_in")}))
    print({k: v for k, v in meta.items() if k.startswith("demo") or k.startswith("tests")})


if __name__ == "__main__":
    main()
