#!/usr/bin/env python3
"""Regression over the stored seeded changes: for every seeded/<name>/patch.diff make a scratch
worktree of /repo HEAD (outside /repo and /verif), apply the patch, run the check of the property the
change targets (plus --also checks listed in meta["caught_by"] with --all) against it (KIO_REPO) and
require exit 1 with a VIOLATION line; remove the worktree.  Nothing is written to evidence/.
  tools/seeded_regress.py [-j N] [--all] [name ...]"""
import json
import os
import subprocess
import sys
import tempfile
from concurrent.futures import ThreadPoolExecutor

VERIF = os.path.dirname(os.path.dirname(os.path.abspath(__file__)))
ALL = ["C01", "C02", "C03", "C05", "C06", "C07", "C08", "C09", "C10", "C11", "C12", "C13", "C14", "C15", "C16", "C17", "C18", "C19"]
FULL = False


def sh(cmd, cwd=None, env=None):
    try:
        p = subprocess.run(cmd, shell=True, cwd=cwd, env=env, capture_output=True, text=True, timeout=2400)
    except subprocess.TimeoutExpired:
        subprocess.run("pkill -9 -f 'checks.run check' || true", shell=True)
        return 124, "TIMEOUT"
    return p.returncode, p.stdout + p.stderr


def one(name, all_checks):
    d = os.path.join(VERIF, "seeded", name)
    meta = json.load(open(os.path.join(d, "meta.json")))
    pid = meta["property"]
    checks = [pid] + ([c for c in meta.get("caught_by", []) if c != pid] if all_checks else [])
    if FULL:
        checks = list(ALL)
    tmp = tempfile.mkdtemp(prefix="sreg_")
    wt = os.path.join(tmp, "wt")
    try:
        rc, o = sh(f"git -C /repo worktree add -q --detach {wt} HEAD && cp /repo/src/kio/_version.py {wt}/src/kio/")
        if rc:
            return name, {"error": o[-300:]}
        rc, o = sh(f"git apply {d}/patch.diff", cwd=wt)
        if rc:
            return name, {"error": "patch does not apply: " + o[-300:]}
        res = {}
        for c in checks:
            rc, o = sh(f"./vf check {c}", cwd=VERIF, env=dict(os.environ, KIO_REPO=wt))
            res[c] = {"exit": rc, "violation": "VIOLATION property=" in o}
            if FULL:
                viol = [ln for ln in o.splitlines() if ln.startswith("VIOLATION")]
                meta.setdefault("checks", {})[c] = {
                    "exit": rc, "violations": len(viol), "first": (viol[0][:300] if viol else None),
                    "undecided": sum(1 for ln in o.splitlines() if ln.startswith("UNDECIDED")),
                    "summary": next((ln for ln in o.splitlines() if ln.startswith(c + " [")), "")[:200]}
        if FULL:
            cs = meta["checks"]
            meta["caught_by"] = [c for c in ALL if cs.get(c, {}).get("exit") == 1]
            meta["undecided_in"] = [c for c in ALL if cs.get(c, {}).get("exit") == 2]
            meta["checker_error_in"] = [c for c in ALL if cs.get(c, {}).get("exit") not in (0, 1, 2, None)]
            meta["re_evaluated_at_repo_head"] = sh("git -C /repo rev-parse --short HEAD")[1].strip()
            json.dump(meta, open(os.path.join(d, "meta.json"), "w"), indent=1)
        return name, res
    finally:
        sh(f"git -C /repo worktree remove --force {wt}")
        sh(f"rm -rf {tmp}")


def main():
    args = sys.argv[1:]
    jobs = 3
    if "-j" in args:
        i = args.index("-j")
        jobs = int(args[i + 1])
        del args[i:i + 2]
    all_checks = "--all" in args
    global FULL
    FULL = "--full" in args
    names = [a for a in args if not a.startswith("-")] or sorted(
        n for n in os.listdir(os.path.join(VERIF, "seeded")) if os.path.exists(os.path.join(VERIF, "seeded", n, "patch.diff")))
    bad = 0
    with ThreadPoolExecutor(jobs) as ex:
        for name, res in ex.map(lambda n: one(n, all_checks), names):
            meta = json.load(open(os.path.join(VERIF, "seeded", name, "meta.json")))
            pid = meta["property"]
            ok = "error" not in res and any(v["exit"] == 1 and v["violation"] for v in res.values())
            own = res.get(pid, {})
            print(f"{name:14s} {'CAUGHT' if ok else 'MISSED'}  own-check exit={own.get('exit')}  " +
                  " ".join(f"{c}={v['exit']}" for c, v in res.items() if c != pid) + (res.get("error", "")), flush=True)
            bad += not ok
    sh("git -C /repo worktree prune")
    return 1 if bad else 0


if __name__ == "__main__":
    sys.exit(main())
