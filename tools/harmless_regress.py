#!/usr/bin/env python3
"""Regression over the stored behaviour-preserving refactorings: for every harmless/<name>/patch.diff
make a scratch worktree of /repo HEAD (outside /repo and /verif), apply the patch, run ALL checks
against it (KIO_REPO); exit 1 or 3 from any check is a false alarm / crash and fails the run, exit 2 (undecided: the
engine is too narrow for that code) is reported but is not an alarm.
  tools/harmless_regress.py [-j N] [name ...]"""
import os
import subprocess
import sys
import tempfile
from concurrent.futures import ThreadPoolExecutor

VERIF = os.path.dirname(os.path.dirname(os.path.abspath(__file__)))
ALL = ["C01", "C02", "C03", "C05", "C06", "C07", "C08", "C09", "C10", "C11", "C12", "C13", "C14", "C15", "C16", "C17", "C18", "C19"]


def sh(cmd, cwd=None, env=None):
    p = subprocess.run(cmd, shell=True, cwd=cwd, env=env, capture_output=True, text=True)
    return p.returncode, p.stdout + p.stderr


def main():
    args = sys.argv[1:]
    jobs = 3
    if "-j" in args:
        i = args.index("-j")
        jobs = int(args[i + 1])
        del args[i:i + 2]
    names = args or sorted(n for n in os.listdir(os.path.join(VERIF, "harmless"))
                           if os.path.exists(os.path.join(VERIF, "harmless", n, "patch.diff")))
    bad = 0
    for name in names:
        tmp = tempfile.mkdtemp(prefix="hreg_")
        wt = os.path.join(tmp, "wt")
        try:
            rc, o = sh(f"git -C /repo worktree add -q --detach {wt} HEAD && cp /repo/src/kio/_version.py {wt}/src/kio/")
            rc, o = sh(f"git apply {VERIF}/harmless/{name}/patch.diff", cwd=wt)
            if rc:
                print(f"{name}: patch does not apply: {o[-200:]}")
                bad += 1
                continue
            with ThreadPoolExecutor(jobs) as ex:
                res = list(ex.map(lambda c: (c, sh(f"./vf check {c}", cwd=VERIF, env=dict(os.environ, KIO_REPO=wt))[0]), ALL))
            alarms = [f"{c}={rc}" for c, rc in res if rc not in (0, 2)]
            undecided = [c for c, rc in res if rc == 2]
            msg = "all 18 checks exit 0" if not alarms and not undecided else \
                ("FALSE ALARM / CRASH: " + " ".join(alarms) if alarms else "no alarm") + \
                (f"; undecided (exit 2, engine too narrow): {' '.join(undecided)}" if undecided else "")
            print(f"{name}: {msg}", flush=True)
            bad += bool(alarms)
        finally:
            sh(f"git -C /repo worktree remove --force {wt}")
            sh(f"rm -rf {tmp}")
    sh("git -C /repo worktree prune")
    return 1 if bad else 0


if __name__ == "__main__":
    sys.exit(main())
